package main

import (
	"bytes"
	"crypto/sha256"
	"encoding/hex"
	"encoding/json"
	"flag"
	"fmt"
	"go/ast"
	"go/printer"
	"go/token"
	"go/types"
	"os"
	"path/filepath"
	"regexp"
	"sort"
	"strings"

	"golang.org/x/tools/go/packages"
)

// The fact extractor re-reads /repo's sources on every run and regenerates
// lean/Gomacro/Facts/Generated.lean: structural facts that Lean theorems (by `decide`)
// then check against hand-written expectations.
//   - C20: every access to the formatter cache cells / mutex, with its lock discipline
//   - C07: every `range` over a map in non-test code, with a fingerprint of its function
//   - C18: every fixed slice / index / unchecked type assertion in non-test code

type cellAccess struct {
	Field, Func, Kind, Path string
	Locked                  bool
}
type formatCase struct{ Case, HasFn, Cmd string }
type mapRange struct{ File, Func, Operand, Fingerprint string }

// posOrder: an ordering comparison between token positions (only meaningful inside one file: across
// files it follows the schedule of the parser goroutines)
type posOrder struct{ File, Func, Expr string }

// globalWrite: a write to package-level state from a function body (state that survives a run)
type globalWrite struct{ File, Func, Var, Kind string }
type uncheckedOp struct{ File, Func, Kind, Expr, Guard string }

type srcFacts struct {
	CellAccesses []cellAccess
	LockUsers    []string
	FormatCases  []formatCase
	MapRanges    []mapRange
	PosOrders    []posOrder
	GlobalWrites []globalWrite
	Unchecked    []uncheckedOp
}

func nodeString(fset *token.FileSet, n ast.Node) string {
	var b bytes.Buffer
	printer.Fprint(&b, fset, n)
	return b.String()
}

func leanStr(s string) string {
	s = strings.ReplaceAll(s, "\\", "\\\\")
	s = strings.ReplaceAll(s, "\"", "\\\"")
	s = strings.ReplaceAll(s, "\n", "\\n")
	s = strings.ReplaceAll(s, "\t", "\\t")
	return "\"" + s + "\""
}

var reCell = regexp.MustCompile(`^has\w+Fmt$`)

func funcName(fd *ast.FuncDecl) string {
	if fd.Recv != nil && len(fd.Recv.List) == 1 {
		t := fd.Recv.List[0].Type
		if st, ok := t.(*ast.StarExpr); ok {
			t = st.X
		}
		if idx, ok := t.(*ast.IndexExpr); ok {
			t = idx.X
		}
		if id, ok := t.(*ast.Ident); ok {
			return id.Name + "." + fd.Name.Name
		}
	}
	return fd.Name.Name
}

// lockedByDefer: the body starts with X.lock.Lock(); defer X.lock.Unlock()
func lockedByDefer(fset *token.FileSet, fd *ast.FuncDecl) bool {
	if fd.Body == nil || len(fd.Body.List) < 2 {
		return false
	}
	s0, ok0 := fd.Body.List[0].(*ast.ExprStmt)
	s1, ok1 := fd.Body.List[1].(*ast.DeferStmt)
	if !ok0 || !ok1 {
		return false
	}
	a := nodeString(fset, s0.X)
	b := nodeString(fset, s1.Call)
	return strings.HasSuffix(a, ".lock.Lock()") && strings.HasSuffix(b, ".lock.Unlock()") &&
		strings.TrimSuffix(a, ".lock.Lock()") == strings.TrimSuffix(b, ".lock.Unlock()")
}

func extractFormatters(repo string, f *srcFacts) error {
	dir := filepath.Join(repo, "generator")
	fset := token.NewFileSet()
	ents, err := os.ReadDir(dir)
	if err != nil {
		return err
	}
	lockUsers := map[string]bool{}
	for _, e := range ents {
		if e.IsDir() || !strings.HasSuffix(e.Name(), ".go") || strings.HasSuffix(e.Name(), "_test.go") {
			continue
		}
		file, err := parseFile(fset, filepath.Join(dir, e.Name()))
		if err != nil {
			return err
		}
		for _, decl := range file.Decls {
			fd, ok := decl.(*ast.FuncDecl)
			if !ok || fd.Body == nil {
				continue
			}
			name := funcName(fd)
			locked := lockedByDefer(fset, fd)
			// walk with the path of enclosing statements
			var walk func(n ast.Node, path []string)
			walk = func(n ast.Node, path []string) {
				switch x := n.(type) {
				case nil:
					return
				case *ast.IfStmt:
					tag := "if"
					if c := nodeString(fset, x.Cond); strings.HasSuffix(c, "== nil") && reCell.MatchString(lastSel(c)) {
						tag = "ifnil"
					}
					if x.Init != nil {
						walk(x.Init, path)
					}
					walk(x.Cond, append(path, tag+"-cond"))
					walk(x.Body, append(path, tag))
					if x.Else != nil {
						walk(x.Else, append(path, tag+"-else"))
					}
					return
				case *ast.ForStmt, *ast.RangeStmt, *ast.GoStmt, *ast.FuncLit, *ast.SwitchStmt, *ast.TypeSwitchStmt, *ast.SelectStmt:
					path = append(path, fmt.Sprintf("%T", x)[5:])
				case *ast.AssignStmt:
					for _, l := range x.Lhs {
						markCell(fset, l, name, "write", path, locked, f)
					}
					for _, r := range x.Rhs {
						walk(r, path)
					}
					return
				case *ast.SelectorExpr:
					if reCell.MatchString(x.Sel.Name) {
						f.CellAccesses = append(f.CellAccesses, cellAccess{Field: x.Sel.Name, Func: name, Kind: "read", Path: strings.Join(path, "/"), Locked: locked})
						return
					}
					if x.Sel.Name == "lock" {
						lockUsers[name] = true
					}
				}
				ast.Inspect(n, func(c ast.Node) bool {
					if c == n || c == nil {
						return c == n
					}
					walk(c, path)
					return false
				})
			}
			walk(fd.Body, nil)
			if name == "Formatters.FormatFile" {
				extractFormatFile(fset, fd, f)
			}
		}
	}
	for k := range lockUsers {
		f.LockUsers = append(f.LockUsers, k)
	}
	sort.Strings(f.LockUsers)
	return nil
}

func lastSel(expr string) string {
	expr = strings.TrimSpace(strings.TrimSuffix(strings.TrimSpace(expr), "== nil"))
	if i := strings.LastIndex(expr, "."); i >= 0 {
		return expr[i+1:]
	}
	return expr
}

func markCell(fset *token.FileSet, lhs ast.Expr, fn, kind string, path []string, locked bool, f *srcFacts) {
	e := lhs
	if st, ok := e.(*ast.StarExpr); ok {
		e = st.X
		kind = "write-deref"
	}
	if sel, ok := e.(*ast.SelectorExpr); ok && reCell.MatchString(sel.Sel.Name) {
		f.CellAccesses = append(f.CellAccesses, cellAccess{Field: sel.Sel.Name, Func: fn, Kind: kind, Path: strings.Join(path, "/"), Locked: locked})
	}
}

func extractFormatFile(fset *token.FileSet, fd *ast.FuncDecl, f *srcFacts) {
	ast.Inspect(fd.Body, func(n ast.Node) bool {
		cc, ok := n.(*ast.CaseClause)
		if !ok {
			return true
		}
		c := formatCase{}
		for _, e := range cc.List {
			c.Case += nodeString(fset, e)
		}
		// expected shape: if recv.hasX() { return exec.Command("tool", ...).Run() }
		if len(cc.Body) == 1 {
			if is, ok := cc.Body[0].(*ast.IfStmt); ok && is.Else == nil && is.Init == nil {
				if call, ok := is.Cond.(*ast.CallExpr); ok {
					c.HasFn = lastSel(nodeString(fset, call.Fun))
				}
				if len(is.Body.List) == 1 {
					if rs, ok := is.Body.List[0].(*ast.ReturnStmt); ok && len(rs.Results) == 1 {
						s := nodeString(fset, rs.Results[0])
						if m := regexp.MustCompile(`^exec\.Command\("([^"]+)".*\)\.Run\(\)$`).FindStringSubmatch(s); m != nil {
							c.Cmd = m[1]
						}
					}
				}
			}
		}
		f.FormatCases = append(f.FormatCases, c)
		return false
	})
}

func parseFile(fset *token.FileSet, path string) (*ast.File, error) {
	return parserParse(fset, path)
}

func extractTyped(repo string, f *srcFacts) error {
	cfg := &packages.Config{Dir: repo, Mode: packages.NeedName | packages.NeedFiles | packages.NeedSyntax | packages.NeedTypes | packages.NeedTypesInfo | packages.NeedImports | packages.NeedDeps,
		BuildFlags: []string{}}
	pkgs, err := packages.Load(cfg, "./analysis/...", "./generator/...", "./cmd/...")
	if err != nil {
		return err
	}
	for _, p := range pkgs {
		if strings.Contains(p.PkgPath, "/test") || strings.HasSuffix(p.PkgPath, "testutils") {
			continue
		}
		for _, file := range p.Syntax {
			fname := p.Fset.Position(file.Pos()).Filename
			rel, _ := filepath.Rel(repo, fname)
			if strings.HasSuffix(rel, "_test.go") || strings.HasPrefix(filepath.Base(rel), "verif_") {
				continue
			}
			for _, decl := range file.Decls {
				fd, ok := decl.(*ast.FuncDecl)
				if !ok || fd.Body == nil {
					continue
				}
				name := funcName(fd)
				src := nodeString(p.Fset, fd)
				h := sha256.Sum256([]byte(src))
				fp := hex.EncodeToString(h[:6])
				var stack []ast.Node
				guardOf := func(n ast.Node) string {
					var gs []string
					for i := len(stack) - 1; i >= 0; i-- {
						is, ok := stack[i].(*ast.IfStmt)
						if !ok {
							continue
						}
						// only when n sits in the body of the if (not in its condition or else branch)
						if n.Pos() >= is.Body.Pos() && n.End() <= is.Body.End() {
							gs = append(gs, nodeString(p.Fset, is.Cond))
						}
					}
					return strings.Join(gs, " && ")
				}
				ast.Inspect(fd.Body, func(n ast.Node) bool {
					if n == nil {
						stack = stack[:len(stack)-1]
						return true
					}
					stack = append(stack, n)
					switch x := n.(type) {
					case *ast.BinaryExpr:
						if x.Op == token.LSS || x.Op == token.LEQ || x.Op == token.GTR || x.Op == token.GEQ {
							isPos := func(e ast.Expr) bool {
								t := p.TypesInfo.TypeOf(e)
								return t != nil && t.String() == "go/token.Pos"
							}
							if isPos(x.X) || isPos(x.Y) {
								f.PosOrders = append(f.PosOrders, posOrder{File: rel, Func: name, Expr: nodeString(p.Fset, x)})
							}
						}
					case *ast.IncDecStmt:
						if v := pkgLevelVar(p, x.X); v != "" {
							f.GlobalWrites = append(f.GlobalWrites, globalWrite{File: rel, Func: name, Var: v, Kind: "incdec"})
						}
					case *ast.RangeStmt:
						if t := p.TypesInfo.TypeOf(x.X); t != nil {
							if _, isMap := t.Underlying().(*types.Map); isMap {
								f.MapRanges = append(f.MapRanges, mapRange{File: rel, Func: name, Operand: nodeString(p.Fset, x.X), Fingerprint: fp})
							}
						}
					case *ast.SliceExpr:
						// fixed-width slicing: at least one constant non-zero bound
						isConst := func(e ast.Expr) bool {
							if e == nil {
								return false
							}
							tv, ok := p.TypesInfo.Types[e]
							return ok && tv.Value != nil && tv.Value.String() != "0"
						}
						if isConst(x.Low) || isConst(x.High) {
							f.Unchecked = append(f.Unchecked, uncheckedOp{File: rel, Func: name, Kind: "slice", Expr: nodeString(p.Fset, x), Guard: guardOf(x)})
						}
					case *ast.TypeAssertExpr:
						if x.Type == nil {
							return true // type switch
						}
						f.Unchecked = append(f.Unchecked, uncheckedOp{File: rel, Func: name, Kind: "assert", Expr: nodeString(p.Fset, x)})
					case *ast.AssignStmt:
						if x.Tok != token.DEFINE {
							for _, l := range x.Lhs {
								if v := pkgLevelVar(p, l); v != "" {
									kind := "assign"
									if _, isIdent := l.(*ast.Ident); !isIdent {
										kind = "element"
									}
									f.GlobalWrites = append(f.GlobalWrites, globalWrite{File: rel, Func: name, Var: v, Kind: kind})
								}
							}
						}
						// comma-ok assertions are checked: skip their TypeAssertExpr
						if len(x.Lhs) == 2 && len(x.Rhs) == 1 {
							if _, ok := x.Rhs[0].(*ast.TypeAssertExpr); ok {
								for _, l := range x.Lhs {
									ast.Inspect(l, func(ast.Node) bool { return true })
								}
								// still descend into the asserted expression
								ta := x.Rhs[0].(*ast.TypeAssertExpr)
								ast.Inspect(ta.X, func(m ast.Node) bool {
									if t2, ok := m.(*ast.TypeAssertExpr); ok && t2.Type != nil {
										f.Unchecked = append(f.Unchecked, uncheckedOp{File: rel, Func: name, Kind: "assert", Expr: nodeString(p.Fset, t2)})
									}
									return true
								})
								stack = stack[:len(stack)-1]
								return false
							}
						}
					case *ast.ValueSpec:
						if len(x.Names) == 2 && len(x.Values) == 1 {
							if _, ok := x.Values[0].(*ast.TypeAssertExpr); ok {
								stack = stack[:len(stack)-1]
								return false
							}
						}
					case *ast.IfStmt:
						// `if v, ok := x.(T); ok` handled through AssignStmt
					}
					return true
				})
			}
		}
	}
	sort.Slice(f.MapRanges, func(i, j int) bool {
		a, b := f.MapRanges[i], f.MapRanges[j]
		return a.File+a.Func+a.Operand < b.File+b.Func+b.Operand
	})
	sort.Slice(f.PosOrders, func(i, j int) bool {
		a, b := f.PosOrders[i], f.PosOrders[j]
		return a.File+a.Func+a.Expr < b.File+b.Func+b.Expr
	})
	sort.Slice(f.GlobalWrites, func(i, j int) bool {
		a, b := f.GlobalWrites[i], f.GlobalWrites[j]
		return a.File+a.Func+a.Var+a.Kind < b.File+b.Func+b.Var+b.Kind
	})
	sort.Slice(f.Unchecked, func(i, j int) bool {
		a, b := f.Unchecked[i], f.Unchecked[j]
		return a.File+a.Func+a.Kind+a.Expr < b.File+b.Func+b.Kind+b.Expr
	})
	return nil
}

// pkgLevelVar: the package-level variable written through the expression (x, x[i], x.f, *x), or ""
func pkgLevelVar(p *packages.Package, e ast.Expr) string {
	for {
		switch x := e.(type) {
		case *ast.Ident:
			if v, ok := p.TypesInfo.Uses[x].(*types.Var); ok && v.Parent() == p.Types.Scope() {
				return v.Name()
			}
			return ""
		case *ast.IndexExpr:
			e = x.X
		case *ast.SelectorExpr:
			// pkg.Var of another package
			if id, ok := x.X.(*ast.Ident); ok {
				if _, isPkg := p.TypesInfo.Uses[id].(*types.PkgName); isPkg {
					if v, ok := p.TypesInfo.Uses[x.Sel].(*types.Var); ok {
						return id.Name + "." + v.Name()
					}
					return ""
				}
			}
			e = x.X
		case *ast.StarExpr:
			e = x.X
		case *ast.ParenExpr:
			e = x.X
		default:
			return ""
		}
	}
}

func runExtract(args []string) error {
	fs := flag.NewFlagSet("extract", flag.ExitOnError)
	repo := fs.String("repo", "/repo", "")
	lean := fs.String("lean", "", "Generated.lean to write")
	out := fs.String("out", "", "facts.json to write")
	fs.Parse(args)
	var f srcFacts
	if err := extractFormatters(*repo, &f); err != nil {
		return err
	}
	if err := extractTyped(*repo, &f); err != nil {
		return err
	}
	if *out != "" {
		b, _ := json.MarshalIndent(f, "", " ")
		os.WriteFile(*out, b, 0o644)
	}
	if *lean != "" {
		var b strings.Builder
		b.WriteString("/- GENERATED by `vh extract` from /repo's current sources on every check run. DO NOT EDIT. -/\n")
		b.WriteString("import Gomacro.Facts.Types\nnamespace Gomacro.Facts\n\n")
		b.WriteString("def cellAccesses : List CellAccess := [\n")
		for i, a := range f.CellAccesses {
			fmt.Fprintf(&b, "  ⟨%s, %s, %s, %s, %v⟩%s\n", leanStr(a.Field), leanStr(a.Func), leanStr(a.Kind), leanStr(a.Path), a.Locked, comma(i, len(f.CellAccesses)))
		}
		b.WriteString("]\n\ndef lockUsers : List String := [")
		for i, u := range f.LockUsers {
			fmt.Fprintf(&b, "%s%s", leanStr(u), commaInline(i, len(f.LockUsers)))
		}
		b.WriteString("]\n\ndef formatCases : List FormatCase := [\n")
		for i, c := range f.FormatCases {
			fmt.Fprintf(&b, "  ⟨%s, %s, %s⟩%s\n", leanStr(c.Case), leanStr(c.HasFn), leanStr(c.Cmd), comma(i, len(f.FormatCases)))
		}
		b.WriteString("]\n\ndef mapRanges : List MapRange := [\n")
		for i, m := range f.MapRanges {
			fmt.Fprintf(&b, "  ⟨%s, %s, %s, %s⟩%s\n", leanStr(m.File), leanStr(m.Func), leanStr(m.Operand), leanStr(m.Fingerprint), comma(i, len(f.MapRanges)))
		}
		b.WriteString("]\n\ndef posOrders : List PosOrder := [\n")
		for i, m := range f.PosOrders {
			fmt.Fprintf(&b, "  ⟨%s, %s, %s⟩%s\n", leanStr(m.File), leanStr(m.Func), leanStr(m.Expr), comma(i, len(f.PosOrders)))
		}
		b.WriteString("]\n\ndef globalWrites : List GlobalWrite := [\n")
		for i, m := range f.GlobalWrites {
			fmt.Fprintf(&b, "  ⟨%s, %s, %s, %s⟩%s\n", leanStr(m.File), leanStr(m.Func), leanStr(m.Var), leanStr(m.Kind), comma(i, len(f.GlobalWrites)))
		}
		b.WriteString("]\n\ndef uncheckedOps : List UncheckedOp := [\n")
		for i, u := range f.Unchecked {
			fmt.Fprintf(&b, "  ⟨%s, %s, %s, %s, %s⟩%s\n", leanStr(u.File), leanStr(u.Func), leanStr(u.Kind), leanStr(u.Expr), leanStr(u.Guard), comma(i, len(f.Unchecked)))
		}
		b.WriteString("]\n\nend Gomacro.Facts\n")
		// write only when changed, to keep lake's incremental build quiet
		old, _ := os.ReadFile(*lean)
		if string(old) != b.String() {
			if err := os.WriteFile(*lean, []byte(b.String()), 0o644); err != nil {
				return err
			}
		}
	}
	fmt.Printf("extract: cellAccesses=%d formatCases=%d mapRanges=%d unchecked=%d\n", len(f.CellAccesses), len(f.FormatCases), len(f.MapRanges), len(f.Unchecked))
	return nil
}

func comma(i, n int) string {
	if i+1 < n {
		return ","
	}
	return ""
}
func commaInline(i, n int) string {
	if i+1 < n {
		return ", "
	}
	return ""
}
