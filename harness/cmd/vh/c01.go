package main

import (
	"fmt"
	"math/rand"
	"os"
	"path/filepath"
	"regexp"
	"strings"

	"verifharness/internal/drv"
	"verifharness/internal/gobuild"
	"verifharness/internal/irdump"
	"verifharness/internal/load"
	"verifharness/internal/rep"
	"verifharness/internal/synth"
)

func init() { runners["C01"] = runC01 }

var posRe = regexp.MustCompile(`^[^ ]*\.go:\d+:\d+: `)

var synthNameRe = regexp.MustCompile(`\b[A-Za-z_]*[A-Za-z]\d+[A-Za-z0-9_]*\b`)

// errDetail: the first error message with positions and synthesised names (S12, F3, IdT0, E1C2...) abstracted
func errDetail(msg string) string {
	first := strings.SplitN(msg, "\n", 2)[0]
	first = posRe.ReplaceAllString(first, "")
	if i := strings.Index(first, " (and "); i > 0 {
		first = first[:i]
	}
	first = synthNameRe.ReplaceAllString(first, "X")
	first = digitsRe.ReplaceAllString(first, "N")
	if len(first) > 70 {
		first = first[:70]
	}
	return slug(first)
}

func errClass(msg string) string {
	first := strings.SplitN(msg, "\n", 2)[0]
	first = posRe.ReplaceAllString(first, "")
	switch {
	case strings.Contains(first, "undefined:") || strings.Contains(first, "undefined (") || strings.Contains(first, "has no field or method"):
		return "undefined-identifier"
	case strings.Contains(first, "redeclared") || strings.Contains(first, "already declared") || strings.Contains(first, "duplicate"):
		return "duplicate-identifier"
	case strings.Contains(first, "expected") || strings.Contains(first, "syntax") || strings.Contains(first, "illegal"):
		return "syntax-error"
	case strings.Contains(first, "cannot use") || strings.Contains(first, "mismatched types") || strings.Contains(first, "cannot convert") || strings.Contains(first, "invalid operation"):
		return "ill-typed-expression"
	case strings.Contains(first, "declared and not used") || strings.Contains(first, "imported and not used"):
		return "unused"
	case strings.Contains(first, "import cycle"):
		return "import-cycle"
	}
	return "other:" + digitsRe.ReplaceAllString(firstWords(first, 4), "N")
}

func numbered(s string) string {
	lines := strings.Split(s, "\n")
	for i := range lines {
		lines[i] = fmt.Sprintf("%4d  %s", i+1, lines[i])
	}
	return strings.Join(lines, "\n")
}

// triggers: shapes of the input program under which a known defect of the Go generators shows.
// A failure is attributed to a known finding only if the program has the corresponding shape.
func c01Triggers(a *analysed) map[string]bool {
	out := map[string]bool{}
	if a == nil || a.Env == nil {
		return out
	}
	decl := map[string]*irdump.Decl{}
	for _, d := range a.Env.Decls {
		decl[d.Q] = d
	}
	pkgNames := map[string]string{}
	for _, d := range a.Env.Decls {
		if prev, ok := pkgNames[d.PkgName]; ok && prev != d.PkgPath && d.PkgPath != "" {
			out["two-imported-packages-with-one-name"] = true
		}
		if d.PkgPath != "" {
			pkgNames[d.PkgName] = d.PkgPath
		}
	}
	var nested func(t *irdump.Ty, depth int) bool
	nested = func(t *irdump.Ty, depth int) bool {
		if t == nil {
			return false
		}
		switch t.K {
		case "time":
			return depth >= 2
		case "arr", "ptr":
			return nested(t.E, depth+1)
		case "map":
			return nested(t.E, depth+1) || nested(t.Key, depth+1)
		}
		return false
	}
	for _, d := range a.Env.Decls {
		if d.Kind == "named" && nested(d.Under, 0) {
			out["nested-container-of-time"] = true
		}
		if d.Kind == "named" && d.Under != nil && d.Under.E != nil && d.Under.E.K == "ref" && d.PkgPath == a.Env.PkgPath {
			if t := decl[d.Under.E.Q]; t != nil && t.Kind == "union" && t.PkgPath != a.Env.PkgPath {
				out["union-of-another-package-as-field"] = true
			}
		}
		if d.Kind != "struct" {
			continue
		}
		for _, f := range d.Fields {
			if nested(f.T, 0) {
				out["nested-container-of-time"] = true
			}
			if f.T.K == "ref" {
				if t := decl[f.T.Q]; t != nil && t.Kind == "union" && t.PkgPath != a.Env.PkgPath && d.PkgPath == a.Env.PkgPath {
					out["union-of-another-package-as-field"] = true
				}
			}
		}
	}
	// two local unions sharing their first two letters and a member
	var locals []*irdump.Decl
	for _, d := range a.Env.Decls {
		if d.Kind == "union" && d.PkgPath == a.Env.PkgPath {
			locals = append(locals, d)
		}
	}
	p2 := func(s string) string {
		if len(s) > 2 {
			return s[:2]
		}
		return s
	}
	for i, u := range locals {
		for _, v := range locals[i+1:] {
			if p2(u.Name) != p2(v.Name) || u.Name == v.Name {
				continue
			}
			for _, m := range u.UMembers {
				for _, m2 := range v.UMembers {
					if m.Q == m2.Q {
						out["unions-sharing-prefix-and-member"] = true
					}
				}
			}
		}
	}
	for _, s := range a.Env.Source {
		d := decl[s.Q]
		if s.K != "ref" || d == nil || d.Kind != "struct" {
			continue
		}
		cols := 0
		hasID := false
		for _, f := range d.Fields {
			guard := strings.Contains(f.Tag, "gomacro-sql-guard:")
			if !f.GoExported || guard {
				continue // guards exist in the schema only, not in the CRUD code
			}
			cols++
			if strings.ToLower(f.Name) == "id" {
				hasID = true
				if f.T.K == "ref" {
					if t := decl[f.T.Q]; t != nil && t.PkgPath != a.Env.PkgPath {
						out["id-type-of-another-package"] = true
					}
				}
			}
			if f.T.K == "ref" {
				if t := decl[f.T.Q]; t != nil {
					if t.Kind == "named" && t.Under != nil && t.Under.K == "time" && t.PkgPath == a.Env.PkgPath && strings.Contains(strings.ToLower(t.Name), "date") {
						out["local-date-typed-column"] = true
					}
					if t.Kind == "union" {
						out["union-typed-column"] = true
					}
					if t.Kind == "struct" && len(t.TArgs) > 0 {
						out["generic-struct-column"] = true
					}
				}
			}
		}
		if cols == 0 {
			out["table-without-column"] = true
		}
		if cols == 1 && hasID {
			out["table-with-only-an-id"] = true
		}
	}
	return out
}

// c01Signature names the defect: target family, error class and, when the program has the shape
// that triggers a known defect with that very error, the name of the shape.
func c01Signature(a *analysed, tg, msg string) string {
	tr := c01Triggers(a)
	fam := strings.TrimSuffix(tg, "-sets")
	first := posRe.ReplaceAllString(strings.SplitN(msg, "\n", 2)[0], "")
	try := func(cond bool, trigger string) string {
		if cond && tr[trigger] {
			return trigger
		}
		return ""
	}
	shape := ""
	switch fam {
	case "sqlcrud":
		for _, c := range []string{
			try(strings.Contains(first, "invalid receiver type") && strings.Contains(first, "interface type"), "union-typed-column"),
			try(strings.Contains(first, "without instantiation"), "generic-struct-column"),
			try(strings.Contains(first, "expected '(', found '.'"), "id-type-of-another-package"),
			try(strings.Contains(first, "expected operand, found ','"), "table-with-only-an-id"),
			try(strings.Contains(first, "undefined: NewDateFrom") || strings.Contains(first, "s.Time undefined"), "local-date-typed-column"),
			try(strings.Contains(first, "declared and not used: item"), "table-without-column"),
		} {
			if c != "" {
				shape = c
			}
		}
	case "randdata":
		for _, c := range []string{
			try(strings.Contains(first, "redeclared in this block"), "two-imported-packages-with-one-name"),
			try(strings.Contains(first, "undefined: Time") || strings.Contains(first, "undefined: Date"), "nested-container-of-time"),
		} {
			if c != "" {
				shape = c
			}
		}
	case "gounions":
		shape = try(strings.Contains(first, "undefined:"), "union-of-another-package-as-field")
		if c := try(strings.Contains(first, "Kind redeclared in this block"), "unions-sharing-prefix-and-member"); c != "" {
			shape = c
		}
	}
	if shape == "" {
		shape = "untriaged:" + errDetail(msg)
	}
	return fmt.Sprintf("c01:%s:%s:%s", fam, strings.SplitN(errClass(msg), ":", 2)[0], shape)
}

var foreignHelperRe = regexp.MustCompile(`undefined: \w+\.(\w+ArrayToPQ|Scan\w+Array|\w+Set)\b`)

var kindConstRe = regexp.MustCompile(`(?m)^\s*(\w+Kind) = "`)

var genFileOf = map[string]string{"gounions": "gen_unions.go", "randdata": "gen_rand.go", "sqlcrud": "gen_crud.go", "sqlcrud-sets": "gen_crud.go"}

func runC01(r *rep.Report, thorough bool) error {
	r.Rule = "synthesised packages (general, sql-flavoured and risky spellings, plus hand-written corner programs) x {gounions, randdata, sqlcrud with generate-sets off and on}: the real generator output goes through golang.org/x/tools/imports.Process (the goimports library) and is type-checked by go/types together with the package it was generated from (lib/pq replaced by the stand-in the repository's own tests use). non-trivial = the generator emitted at least one declaration besides its header"
	rng := rand.New(rand.NewSource(r.Seed))
	n := 50
	if thorough {
		n = 400
	}
	var cases []*synth.Case
	o := synth.DefaultOptions()
	o.NoRecursion = false
	cases = append(cases, genCases(rng, n, "g", o)...)
	o.SQL = true
	cases = append(cases, genCases(rng, n, "s", o)...)
	o.Risky = true
	cases = append(cases, genCases(rng, n/2, "k", o)...)
	cases = append(cases, synth.HandWritten()...)
	if only := os.Getenv("VH_ONLY_CASE"); only != "" { // debugging aid
		var sel []*synth.Case
		for _, c := range cases {
			if c.ID == only {
				sel = append(sel, c)
			}
		}
		cases = sel
	}
	l, err := load.Cases(cases)
	if err != nil {
		return err
	}
	defer l.Close()
	if err := gobuild.InstallPQ(l); err != nil {
		return err
	}
	for id, e := range l.Bad {
		r.Note("ill-typed %s: %s", id, e)
	}
	as := analyseCases(l)
	byID := map[string]*analysed{}
	for _, a := range as {
		byID[a.Case.ID] = a
	}
	// ---- identifier tie: what the generators declare vs the Lean identifier model
	d, err := drv.Start()
	if err != nil {
		return err
	}
	defer d.Close()
	for _, a := range as {
		if a.Ana == nil || a.Env == nil {
			continue
		}
		reply, err := d.Call(map[string]any{"op": "c01.idents", "env": a.Env})
		if err != nil {
			return err
		}
		in := map[string]any{"case": a.Case.ID, "sources": a.Case.Sources()}
		if t := runTarget("gounions", a, l.Mod.Root); t.Out.Class == "ok" {
			txt := t.Text["gen_unions.go"]
			for _, u := range reply["unions"].([]any) {
				um := u.(map[string]any)
				if !strings.Contains(txt, "type "+um["wrapper"].(string)+" struct") {
					continue // union not reached by the generator
				}
				var got []string
				for _, m := range kindConstRe.FindAllStringSubmatch(txt, -1) {
					got = append(got, m[1])
				}
				for _, k := range strsOf(um["kinds"]) {
					found := false
					for _, g := range got {
						if g == k {
							found = true
						}
					}
					if !found {
						r.Fail(rep.Failure{Signature: "c01:gounions:kind-constant-name", What: "Kind constant " + k + " of union " + um["union"].(string) + " is not declared by the generated code", Input: in, Expected: um["kinds"], Observed: got})
					}
				}
			}
			// duplicate constants in one file do not compile
			seenK := map[string]int{}
			for _, m := range kindConstRe.FindAllStringSubmatch(txt, -1) {
				seenK[m[1]]++
			}
			for k, n := range seenK {
				if n > 1 {
					r.Fail(rep.Failure{Signature: "c01:gounions:duplicate-kind-constant", What: "Kind constant " + k + " declared " + fmt.Sprint(n) + " times (unions sharing their first two letters and a member)", Input: in})
				}
			}
		}
		if t := runTarget("randdata", a, l.Mod.Root); t.Out.Class == "ok" {
			txt := t.Text["gen_rand.go"]
			for _, e := range reply["enums"].([]any) {
				em := e.(map[string]any)
				re := regexp.MustCompile(`func ` + regexp.QuoteMeta(em["fn"].(string)) + `\(\)[^{]*\{\s*choix := \[\.\.\.\][^{]*\{([^}]*)\}`)
				m := re.FindStringSubmatch(txt)
				if m == nil {
					continue
				}
				var got []string
				for _, c := range strings.Split(m[1], ",") {
					c = strings.TrimSpace(c)
					if i := strings.LastIndex(c, "."); i >= 0 {
						c = c[i+1:]
					}
					got = append(got, c)
				}
				want := strsOf(em["choices"])
				if len(want) == 0 {
					got = nil
					if strings.TrimSpace(m[1]) != "" {
						got = []string{m[1]}
					}
				}
				if !eqStrs(got, want) {
					r.Fail(rep.Failure{Signature: "c01:randdata:enum-choice-list", What: "the enum choice list of " + em["fn"].(string) + " is not the list of exported members", Input: in, Expected: want, Observed: got})
				}
			}
		}
		if t := runTarget("sqlcrud", a, l.Mod.Root); t.Out.Class == "ok" {
			txt := t.Text["gen_crud.go"]
			for _, tb := range reply["tables"].([]any) {
				tm := tb.(map[string]any)
				pk, _ := tm["pk"].(string)
				re := regexp.MustCompile(`func Scan` + regexp.QuoteMeta(tm["table"].(string)) + `s\(rs \*sql\.Rows\)[\s\S]*?structs\[s\.(\w+)\] = s`)
				if m := re.FindStringSubmatch(txt); m != nil && pk != "" && m[1] != pk {
					r.Fail(rep.Failure{Signature: "c01:sqlcrud:primary-key-accessor", What: "scan helper of table " + tm["table"].(string) + " reads the key through ." + m[1] + " but the field is " + pk, Input: in})
				}
			}
		}
	}

	for round, targets := range [][]string{{"gounions", "randdata", "sqlcrud"}, {"sqlcrud-sets"}} {
		var files []gobuild.GenFile
		var ids []string
		owner := map[string]string{} // case/file -> target
		for _, a := range as {
			if a.Ana == nil {
				continue
			}
			placed := false
			for _, tg := range targets {
				t := runTarget(tg, a, l.Mod.Root)
				r.Hist(tg + ":" + t.Out.Class)
				if t.Out.Class != "ok" {
					continue
				}
				for _, txt := range t.Text {
					nontrivial := false
					for _, ds := range t.Decls {
						nontrivial = len(ds) > 1
					}
					r.Case(map[string]any{"case": a.Case.ID, "target": tg, "features": a.Case.Feat}, nontrivial)
					files = append(files, gobuild.GenFile{Case: a.Case.ID, Name: genFileOf[tg], Content: txt})
					owner[a.Case.ID+"/"+genFileOf[tg]] = tg
					placed = true
				}
			}
			if placed {
				ids = append(ids, a.Case.ID)
			}
		}
		probs := gobuild.Place(l, files)
		tc, err := gobuild.Check(l, ids)
		if err != nil {
			return err
		}
		probs = append(probs, tc...)
		for _, p := range probs {
			tg := owner[p.Case+"/"+p.File]
			if tg == "" {
				tg = "unattributed"
			}
			a := byID[p.Case]
			var src map[string]string
			var feat []string
			if a != nil {
				src, feat = a.Case.Sources(), a.Case.Feat
			}
			gen := ""
			if b, err := os.ReadFile(filepath.Join(l.Mod.Root, p.Case, p.File)); err == nil {
				gen = numbered(string(b))
			} else {
				for _, f := range files {
					if f.Case == p.Case && f.Name == p.File {
						gen = numbered(f.Content)
					}
				}
			}
			// a column of an ID type of ANOTHER package is a foreign key into a table of that package:
			// sqlcrud calls the helpers that package's own generated file declares (pkg.XArrayToPQ,
			// pkg.ScanXArray). The synthesised sub package has no such table and no generated file:
			// not a model file of the quantifier.
			if strings.HasPrefix(tg, "sqlcrud") && foreignHelperRe.MatchString(strings.SplitN(p.Msg, "\n", 2)[0]) {
				r.Hist("outside-quantifier(foreign key to a table of another package without its generated helpers)")
				continue
			}
			r.Fail(rep.Failure{Signature: c01Signature(a, tg, p.Msg), What: fmt.Sprintf("generated %s does not %s with its source package: %s", p.File, map[string]string{"imports": "parse", "typecheck": "type-check"}[p.Stage], strings.SplitN(p.Msg, "\n", 2)[0]),
				Input: map[string]any{"case": p.Case, "target": tg, "features": feat, "sources": src, "generated": gen}, Observed: p.Msg})
		}
		gobuild.Remove(l, files)
		r.Hist(fmt.Sprintf("round%d_packages_checked", round))
		r.Histogram[fmt.Sprintf("round%d_packages_checked", round)] = len(ids)
	}
	return nil
}
