package gorun

import (
	"bufio"
	"bytes"
	"context"
	"encoding/json"
	"fmt"
	"os"
	"os/exec"
	"path/filepath"
	"sort"
	"strings"
	"time"

	"verifharness/internal/load"
)

// Spec describes what the driver of one case registers.
type Spec struct {
	Case    string
	PkgName string
	Types   []string            // local source type names (non-interface)
	Unions  map[string][]string // interface expr -> member type exprs (as seen from the case package)
	Rand    map[string]string   // type name -> generated function name
	Enums   map[string][]string // enum type expr -> constant exprs
	Imports map[string]string   // import name -> path, for the qualified names above
}

type Line struct {
	Case         string         `json:"case"`
	Type         string         `json:"type"`
	Mode         string         `json:"mode"`
	Val          map[string]any `json:"val,omitempty"`
	Doc          string         `json:"doc,omitempty"`
	MarshalErr   string         `json:"marshalErr,omitempty"`
	UnmarshalErr string         `json:"unmarshalErr,omitempty"`
	Panic        string         `json:"panic,omitempty"`
	RoundTrip    bool           `json:"roundTrip"`
	Back         map[string]any `json:"back,omitempty"`
	Fields       map[string]string `json:"fields,omitempty"`
}

func driverSource(s Spec) string {
	var b strings.Builder
	fmt.Fprintf(&b, "package %s\n\nimport (\n\t\"reflect\"\n\n\t\"acme.org/synth/zz_rt\"\n", s.PkgName)
	var used []string
	body := &strings.Builder{}
	fmt.Fprintf(body, "func init() {\n\tc := &zz_rt.Case{Types: map[string]reflect.Type{}, Unions: map[reflect.Type][]reflect.Type{}, Rand: map[string]func() any{}, Enums: map[reflect.Type][]reflect.Value{}}\n")
	for _, t := range s.Types {
		fmt.Fprintf(body, "\tc.Types[%q] = reflect.TypeOf((*%s)(nil)).Elem()\n", t, t)
	}
	var us []string
	for u := range s.Unions {
		us = append(us, u)
	}
	sort.Strings(us)
	for _, u := range us {
		var ms []string
		for _, m := range s.Unions[u] {
			ms = append(ms, fmt.Sprintf("reflect.TypeOf((*%s)(nil)).Elem()", m))
		}
		fmt.Fprintf(body, "\tc.Unions[reflect.TypeOf((*%s)(nil)).Elem()] = []reflect.Type{%s}\n", u, strings.Join(ms, ", "))
	}
	var es []string
	for e := range s.Enums {
		es = append(es, e)
	}
	sort.Strings(es)
	for _, e := range es {
		var cs []string
		for _, c := range s.Enums[e] {
			cs = append(cs, fmt.Sprintf("reflect.ValueOf(%s)", c))
		}
		fmt.Fprintf(body, "\tc.Enums[reflect.TypeOf((*%s)(nil)).Elem()] = []reflect.Value{%s}\n", e, strings.Join(cs, ", "))
	}
	var rs []string
	for t := range s.Rand {
		rs = append(rs, t)
	}
	sort.Strings(rs)
	for _, t := range rs {
		fmt.Fprintf(body, "\tc.Rand[%q] = func() any { return %s() }\n", t, s.Rand[t])
	}
	fmt.Fprintf(body, "\tzz_rt.Register(%q, c)\n}\n", s.Case)
	for name, path := range s.Imports {
		if strings.Contains(body.String(), name+".") {
			used = append(used, fmt.Sprintf("\t%s %q\n", name, path))
		}
	}
	sort.Strings(used)
	for _, u := range used {
		b.WriteString(u)
	}
	b.WriteString(")\n\n")
	b.WriteString(body.String())
	return b.String()
}

// Build writes the runtime, the drivers and the main package, and builds the binary.
func Build(l *load.Loaded, specs []Spec) (string, string, error) {
	rt := filepath.Join(l.Mod.Root, "zz_rt")
	os.MkdirAll(rt, 0o755)
	if err := os.WriteFile(filepath.Join(rt, "rt.go"), []byte(RTSource), 0o644); err != nil {
		return "", "", err
	}
	var imports []string
	for _, s := range specs {
		if err := os.WriteFile(filepath.Join(l.Mod.Root, s.Case, "zz_verif_driver.go"), []byte(driverSource(s)), 0o644); err != nil {
			return "", "", err
		}
		imports = append(imports, fmt.Sprintf("\t_ \"acme.org/synth/%s\"", s.Case))
	}
	mainDir := filepath.Join(l.Mod.Root, "zz_main")
	os.MkdirAll(mainDir, 0o755)
	if err := os.WriteFile(filepath.Join(mainDir, "main.go"), []byte(fmt.Sprintf(MainSource, strings.Join(imports, "\n"))), 0o644); err != nil {
		return "", "", err
	}
	bin := filepath.Join(l.Dir, "runall")
	cmd := exec.Command("go", "build", "-o", bin, "./zz_main")
	cmd.Dir = l.Mod.Root
	cmd.Env = append(os.Environ(), "GOFLAGS=-mod=mod", "GOPROXY=off")
	out, err := cmd.CombinedOutput()
	return bin, string(out), err
}

func parseLines(out []byte) []Line {
	var lines []Line
	sc := bufio.NewScanner(bytes.NewReader(out))
	sc.Buffer(make([]byte, 1<<20), 1<<28)
	for sc.Scan() {
		var l Line
		if json.Unmarshal(sc.Bytes(), &l) == nil && l.Case != "" {
			lines = append(lines, l)
		}
	}
	return lines
}

// RunValues: k random values for every registered source type.
func RunValues(bin string, seed int64, k int) ([]Line, error) {
	ctx, cancel := context.WithTimeout(context.Background(), 10*time.Minute)
	defer cancel()
	cmd := exec.CommandContext(ctx, bin, "-mode", "values", "-seed", fmt.Sprint(seed), "-k", fmt.Sprint(k))
	var stderr bytes.Buffer
	cmd.Stderr = &stderr
	out, err := cmd.Output()
	if err != nil {
		return parseLines(out), fmt.Errorf("%v: %s", err, tail(stderr.String(), 800))
	}
	return parseLines(out), nil
}

// RunRand calls one generated rand function k times in its own process.
// fatal is non-empty when the process died (stack overflow, timeout).
func RunRand(bin, id, name string, k int) (lines []Line, fatal string) {
	ctx, cancel := context.WithTimeout(context.Background(), 20*time.Second)
	defer cancel()
	cmd := exec.CommandContext(ctx, bin, "-mode", "rand", "-case", id, "-type", name, "-k", fmt.Sprint(k))
	var stderr bytes.Buffer
	cmd.Stderr = &stderr
	out, err := cmd.Output()
	lines = parseLines(out)
	if ctx.Err() != nil {
		return lines, "timeout (20s): the function does not return"
	}
	if err != nil {
		msg := stderr.String()
		if strings.Contains(msg, "stack overflow") || strings.Contains(msg, "goroutine stack exceeds") {
			return lines, "unbounded recursion (stack overflow)"
		}
		return lines, "process died: " + tail(msg, 300)
	}
	return lines, ""
}

func tail(s string, n int) string {
	if len(s) > n {
		return s[len(s)-n:]
	}
	return s
}
