// Package gorun compiles the synthesised packages together with the real generated Go code and a
// small runtime (zz_rt) into one binary, and runs it: random values, JSON documents, round trips,
// calls of the generated rand functions.
package gorun

// RTSource is the source of the runtime package acme.org/synth/zz_rt placed in the scratch module.
const RTSource = `// Package zz_rt is the run-time side of the verification harness (generated into the scratch module).
package zz_rt

import (
	"encoding/base64"
	"encoding/json"
	"fmt"
	"math/rand"
	"reflect"
	"sort"
	"strconv"
	"time"
)

type Case struct {
	Types  map[string]reflect.Type           // source type name -> type
	Unions map[reflect.Type][]reflect.Type   // interface type -> member types
	Rand   map[string]func() any             // source type name -> generated rand function
	Ignore map[string]bool                    // "Type.Field" marked gomacro-data:"ignore"
	Enums  map[reflect.Type][]reflect.Value   // enum type -> its constants
}

var Registry = map[string]*Case{}

func Register(id string, c *Case) { Registry[id] = c }

var timeType = reflect.TypeOf(time.Time{})

// Fill sets v to a random value; union-typed components get a random member value.
func Fill(v reflect.Value, rng *rand.Rand, c *Case, depth int) {
	t := v.Type()
	if ms := c.Enums[t]; len(ms) > 0 {
		v.Set(ms[rng.Intn(len(ms))]) // enum-typed components hold members
		return
	}
	if t == timeType || (t.Kind() == reflect.Struct && t.ConvertibleTo(timeType) && t.NumField() == 3 && t.Field(0).Name == "wall") {
		tm := time.Unix(int64(rng.Intn(2000000000)), 0).UTC()
		v.Set(reflect.ValueOf(tm).Convert(t))
		return
	}
	switch t.Kind() {
	case reflect.Bool:
		v.SetBool(rng.Intn(2) == 0)
	case reflect.Int, reflect.Int8, reflect.Int16, reflect.Int32, reflect.Int64:
		v.SetInt(int64(rng.Intn(100)) - 10*int64(rng.Intn(2)))
	case reflect.Uint, reflect.Uint8, reflect.Uint16, reflect.Uint32, reflect.Uint64:
		v.SetUint(uint64(rng.Intn(100)))
	case reflect.Float32, reflect.Float64:
		v.SetFloat(float64(rng.Intn(200)-50) / 4)
	case reflect.String:
		pool := []string{"", "a", "hello world", "éè 日本", "with \"quote\" and \\ back", "<tag>&amp;", "line\nbreak", "it's"}
		v.SetString(pool[rng.Intn(len(pool))])
	case reflect.Slice:
		switch r := rng.Intn(5); {
		case r == 0:
			v.Set(reflect.Zero(t)) // nil
		case r == 1 || depth <= 0:
			v.Set(reflect.MakeSlice(t, 0, 0)) // empty, non nil
		default:
			n := 1 + rng.Intn(3)
			s := reflect.MakeSlice(t, n, n)
			for i := 0; i < n; i++ {
				Fill(s.Index(i), rng, c, depth-1)
			}
			v.Set(s)
		}
	case reflect.Array:
		for i := 0; i < v.Len(); i++ {
			Fill(v.Index(i), rng, c, depth-1)
		}
	case reflect.Map:
		switch r := rng.Intn(5); {
		case r == 0:
			v.Set(reflect.Zero(t))
		case r == 1 || depth <= 0:
			v.Set(reflect.MakeMap(t))
		default:
			m := reflect.MakeMap(t)
			for i, n := 0, 1+rng.Intn(3); i < n; i++ {
				k := reflect.New(t.Key()).Elem()
				Fill(k, rng, c, depth-1)
				e := reflect.New(t.Elem()).Elem()
				Fill(e, rng, c, depth-1)
				m.SetMapIndex(k, e)
			}
			v.Set(m)
		}
	case reflect.Struct:
		for i := 0; i < v.NumField(); i++ {
			// fields that encoding/json never serialises stay zero (they cannot survive a round trip)
			if t.Field(i).Tag.Get("json") == "-" {
				continue
			}
			if v.Field(i).CanSet() {
				Fill(v.Field(i), rng, c, depth-1)
			} else if t.Field(i).Anonymous && t.Field(i).Type.Kind() == reflect.Struct {
				// exported fields promoted through an unexported embedded struct
				ev := v.Field(i)
				for j := 0; j < ev.NumField(); j++ {
					if ev.Field(j).CanSet() && ev.Type().Field(j).Tag.Get("json") != "-" {
						Fill(ev.Field(j), rng, c, depth-1)
					}
				}
			}
		}
	case reflect.Interface:
		ms := c.Unions[t]
		if len(ms) == 0 {
			return // not a known union: stays nil
		}
		mt := ms[rng.Intn(len(ms))]
		mv := reflect.New(mt).Elem()
		Fill(mv, rng, c, depth-1)
		v.Set(mv)
	case reflect.Ptr:
		if rng.Intn(3) != 0 && depth > 0 {
			p := reflect.New(t.Elem())
			Fill(p.Elem(), rng, c, depth-1)
			v.Set(p)
		}
	}
}

// Dump renders a value as a tagged tree (the GoVal of the Lean semantics).
func Dump(v reflect.Value) map[string]any {
	t := v.Type()
	out := map[string]any{"t": t.String()}
	if t == timeType || (t.Kind() == reflect.Struct && t.ConvertibleTo(timeType) && t.NumField() == 3 && t.Field(0).Name == "wall") {
		out["k"] = "time"
		out["v"] = v.Convert(timeType).Interface().(time.Time).Format(time.RFC3339Nano)
		return out
	}
	switch t.Kind() {
	case reflect.Bool:
		out["k"], out["v"] = "bool", v.Bool()
	case reflect.Int, reflect.Int8, reflect.Int16, reflect.Int32, reflect.Int64:
		out["k"], out["v"] = "int", strconv.FormatInt(v.Int(), 10)
	case reflect.Uint, reflect.Uint8, reflect.Uint16, reflect.Uint32, reflect.Uint64:
		out["k"], out["v"] = "int", strconv.FormatUint(v.Uint(), 10)
	case reflect.Float32, reflect.Float64:
		out["k"], out["v"] = "float", strconv.FormatFloat(v.Float(), 'g', -1, 64)
	case reflect.String:
		out["k"], out["v"] = "str", v.String()
	case reflect.Slice, reflect.Array:
		if t.Kind() == reflect.Slice && t.Elem().Kind() == reflect.Uint8 {
			out["k"] = "bytes"
			out["nil"] = v.IsNil()
			out["b64"] = base64.StdEncoding.EncodeToString(v.Bytes())
			return out
		}
		out["k"] = "list"
		out["slice"] = t.Kind() == reflect.Slice
		out["nil"] = t.Kind() == reflect.Slice && v.IsNil()
		out["bytes"] = t.Elem().Kind() == reflect.Uint8
		es := []any{}
		for i := 0; i < v.Len(); i++ {
			es = append(es, Dump(v.Index(i)))
		}
		out["e"] = es
	case reflect.Map:
		out["k"] = "map"
		out["nil"] = v.IsNil()
		type kv struct {
			ks string
			k, v map[string]any
		}
		var kvs []kv
		for _, k := range v.MapKeys() {
			kvs = append(kvs, kv{fmt.Sprint(k.Interface()), Dump(k), Dump(v.MapIndex(k))})
		}
		sort.Slice(kvs, func(i, j int) bool { return kvs[i].ks < kvs[j].ks })
		es := []any{}
		for _, e := range kvs {
			es = append(es, []any{e.k, e.v})
		}
		out["kv"] = es
	case reflect.Struct:
		out["k"] = "struct"
		fs := []any{}
		for i := 0; i < v.NumField(); i++ {
			f := t.Field(i)
			if !f.IsExported() && !(f.Anonymous && f.Type.Kind() == reflect.Struct) {
				fs = append(fs, map[string]any{"n": f.Name, "exported": false, "embedded": f.Anonymous})
				continue
			}
			fs = append(fs, map[string]any{"n": f.Name, "exported": true, "embedded": f.Anonymous, "tag": string(f.Tag), "v": Dump(v.Field(i))})
		}
		out["f"] = fs
	case reflect.Interface:
		out["k"] = "iface"
		out["nil"] = v.IsNil()
		if !v.IsNil() {
			out["dyn"] = v.Elem().Type().String()
			out["dynName"] = v.Elem().Type().Name()
			out["v"] = Dump(v.Elem())
		}
	case reflect.Ptr:
		out["k"] = "ptr"
		out["nil"] = v.IsNil()
		if !v.IsNil() {
			out["v"] = Dump(v.Elem())
		}
	default:
		out["k"] = "other"
	}
	return out
}

// EqualModuloNil: deep equality where a nil and an empty slice / map count as equal.
func EqualModuloNil(a, b reflect.Value) bool {
	if a.Type() != b.Type() {
		return false
	}
	t := a.Type()
	if t == timeType || (t.Kind() == reflect.Struct && t.ConvertibleTo(timeType) && t.NumField() == 3 && t.Field(0).Name == "wall") {
		return a.Convert(timeType).Interface().(time.Time).Equal(b.Convert(timeType).Interface().(time.Time))
	}
	switch t.Kind() {
	case reflect.Slice:
		if a.Len() != b.Len() {
			return false
		}
		for i := 0; i < a.Len(); i++ {
			if !EqualModuloNil(a.Index(i), b.Index(i)) {
				return false
			}
		}
		return true
	case reflect.Array:
		for i := 0; i < a.Len(); i++ {
			if !EqualModuloNil(a.Index(i), b.Index(i)) {
				return false
			}
		}
		return true
	case reflect.Map:
		if a.Len() != b.Len() {
			return false
		}
		for _, k := range a.MapKeys() {
			bv := b.MapIndex(k)
			if !bv.IsValid() || !EqualModuloNil(a.MapIndex(k), bv) {
				return false
			}
		}
		return true
	case reflect.Struct:
		for i := 0; i < a.NumField(); i++ {
			if !t.Field(i).IsExported() && !(t.Field(i).Anonymous && t.Field(i).Type.Kind() == reflect.Struct) {
				continue // unexported fields are not serialised
			}
			if t.Field(i).Tag.Get("json") == "-" {
				continue // never serialised, whatever the value
			}
			if !EqualModuloNil(a.Field(i), b.Field(i)) {
				return false
			}
		}
		return true
	case reflect.Interface, reflect.Ptr:
		if a.IsNil() || b.IsNil() {
			return a.IsNil() == b.IsNil()
		}
		return EqualModuloNil(a.Elem(), b.Elem())
	}
	return reflect.DeepEqual(a.Interface(), b.Interface())
}

// ignoredAwareEqual compares after clearing json:"-" fields is left to the caller (the model knows the tags).

type Line struct {
	Case      string         ` + "`json:\"case\"`" + `
	Type      string         ` + "`json:\"type\"`" + `
	Mode      string         ` + "`json:\"mode\"`" + `
	Val       map[string]any ` + "`json:\"val,omitempty\"`" + `
	Doc       string         ` + "`json:\"doc,omitempty\"`" + `
	MarshalErr string        ` + "`json:\"marshalErr,omitempty\"`" + `
	UnmarshalErr string      ` + "`json:\"unmarshalErr,omitempty\"`" + `
	Panic     string         ` + "`json:\"panic,omitempty\"`" + `
	RoundTrip bool           ` + "`json:\"roundTrip\"`" + `
	Back      map[string]any ` + "`json:\"back,omitempty\"`" + `
	Fields    map[string]string ` + "`json:\"fields,omitempty\"`" + ` // json.Marshal of each exported field value on its own
}

func emit(l Line) {
	b, _ := json.Marshal(l)
	fmt.Println(string(b))
}

// RunValues: K random values per source type: marshal, unmarshal, compare.
func RunValues(seed int64, k int) {
	ids := make([]string, 0, len(Registry))
	for id := range Registry {
		ids = append(ids, id)
	}
	sort.Strings(ids)
	for _, id := range ids {
		c := Registry[id]
		names := make([]string, 0, len(c.Types))
		for n := range c.Types {
			names = append(names, n)
		}
		sort.Strings(names)
		for _, n := range names {
			t := c.Types[n]
			rng := rand.New(rand.NewSource(seed + int64(len(id)*1000+len(n))))
			for i := 0; i < k; i++ {
				func() {
					l := Line{Case: id, Type: n, Mode: "value"}
					defer func() {
						if e := recover(); e != nil {
							l.Panic = fmt.Sprint(e)
							emit(l)
						}
					}()
					v := reflect.New(t).Elem()
					Fill(v, rng, c, 4)
					l.Val = Dump(v)
					doc, err := json.Marshal(v.Interface())
					if err != nil {
						l.MarshalErr = err.Error()
						emit(l)
						return
					}
					l.Doc = string(doc)
					if t.Kind() == reflect.Struct {
						l.Fields = map[string]string{}
						for fi := 0; fi < t.NumField(); fi++ {
							if t.Field(fi).IsExported() {
								if fb, err := json.Marshal(v.Field(fi).Interface()); err == nil {
									l.Fields[t.Field(fi).Name] = string(fb)
								}
							}
						}
					}
					back := reflect.New(t)
					if err := json.Unmarshal(doc, back.Interface()); err != nil {
						l.UnmarshalErr = err.Error()
						emit(l)
						return
					}
					l.RoundTrip = EqualModuloNil(v, back.Elem())
					if !l.RoundTrip {
						l.Back = Dump(back.Elem())
					}
					emit(l)
				}()
			}
		}
	}
}

// RunRand: call one generated rand function k times (a runaway recursion kills the process:
// the caller runs this mode in a child process per function).
func RunRand(id, name string, k int) {
	c := Registry[id]
	if c == nil || c.Rand[name] == nil {
		emit(Line{Case: id, Type: name, Mode: "rand", Panic: "no such rand function"})
		return
	}
	for i := 0; i < k; i++ {
		func() {
			l := Line{Case: id, Type: name, Mode: "rand"}
			defer func() {
				if e := recover(); e != nil {
					l.Panic = fmt.Sprint(e)
					emit(l)
				}
			}()
			x := c.Rand[name]()
			v := reflect.ValueOf(x)
			l.Val = Dump(v)
			doc, err := json.Marshal(x)
			if err != nil {
				l.MarshalErr = err.Error()
				emit(l)
				return
			}
			l.Doc = string(doc)
			back := reflect.New(v.Type())
			if err := json.Unmarshal(doc, back.Interface()); err != nil {
				l.UnmarshalErr = err.Error()
				emit(l)
				return
			}
			l.RoundTrip = EqualModuloNil(v, back.Elem())
			emit(l)
		}()
	}
}

func RandNames() {
	for id, c := range Registry {
		for n := range c.Rand {
			fmt.Println(id, n)
		}
	}
}
`

// MainSource is the main package of the scratch module.
const MainSource = `package main

import (
	"flag"
	"runtime/debug"

	"acme.org/synth/zz_rt"
%s
)

func main() {
	mode := flag.String("mode", "values", "")
	seed := flag.Int64("seed", 1, "")
	k := flag.Int("k", 5, "")
	id := flag.String("case", "", "")
	name := flag.String("type", "", "")
	flag.Parse()
	debug.SetMaxStack(64 << 20)
	switch *mode {
	case "values":
		zz_rt.RunValues(*seed, *k)
	case "rand":
		zz_rt.RunRand(*id, *name, *k)
	case "randnames":
		zz_rt.RandNames()
	}
}
`
