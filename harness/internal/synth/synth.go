// Package synth synthesises well-typed Go packages over the declaration forms gomacro supports
// (and, in a separate stream, forms it refuses), renders them to disk as a throw-away module,
// and keeps the specification for replays.
package synth

import (
	"path"
	"fmt"
	"math/rand"
	"os"
	"path/filepath"
	"sort"
	"strings"
)

// TE is a type expression.
type TE struct {
	K    string `json:"k"` // basic | slice | array | map | ref | time | ptr | generic | raw
	B    string `json:"b,omitempty"`
	N    int    `json:"n,omitempty"`
	E    *TE    `json:"e,omitempty"`
	Key  *TE    `json:"key,omitempty"`
	Pkg  string `json:"pkg,omitempty"` // "" = the main package, otherwise the import name
	Name string `json:"name,omitempty"`
	Args []*TE  `json:"args,omitempty"`
}

func Basic(b string) *TE          { return &TE{K: "basic", B: b} }
func Slice(e *TE) *TE             { return &TE{K: "slice", E: e} }
func Array(n int, e *TE) *TE      { return &TE{K: "array", N: n, E: e} }
func Map(k, e *TE) *TE            { return &TE{K: "map", Key: k, E: e} }
func Ref(pkg, name string) *TE    { return &TE{K: "ref", Pkg: pkg, Name: name} }
func Time() *TE                   { return &TE{K: "time"} }
func Ptr(e *TE) *TE               { return &TE{K: "ptr", E: e} }
func Raw(text string) *TE         { return &TE{K: "raw", Name: text} }
func Generic(name string, a ...*TE) *TE { return &TE{K: "generic", Name: name, Args: a} }

// Go renders the type expression as seen from package `cur` ("" = main package).
func (t *TE) Go(cur string) string {
	switch t.K {
	case "basic":
		return t.B
	case "slice":
		return "[]" + t.E.Go(cur)
	case "array":
		return fmt.Sprintf("[%d]%s", t.N, t.E.Go(cur))
	case "map":
		return fmt.Sprintf("map[%s]%s", t.Key.Go(cur), t.E.Go(cur))
	case "ref":
		if t.Pkg == cur || t.Pkg == "" && cur == "" {
			return t.Name
		}
		if t.Pkg == "" {
			return "MAIN." + t.Name // never rendered: sub packages do not import main
		}
		return t.Pkg + "." + t.Name
	case "time":
		return "time.Time"
	case "ptr":
		return "*" + t.E.Go(cur)
	case "generic":
		var as []string
		for _, a := range t.Args {
			as = append(as, a.Go(cur))
		}
		return t.Name + "[" + strings.Join(as, ", ") + "]"
	case "raw":
		return t.Name
	}
	panic("bad TE kind " + t.K)
}

func (t *TE) walk(f func(*TE)) {
	if t == nil {
		return
	}
	f(t)
	t.E.walk(f)
	t.Key.walk(f)
	for _, a := range t.Args {
		a.walk(f)
	}
}

type Field struct {
	Name     string `json:"name"`
	T        *TE    `json:"t"`
	Tag      string `json:"tag,omitempty"` // raw tag content (without back quotes)
	Embedded bool   `json:"embedded,omitempty"`
}

type Const struct {
	Name    string `json:"name"`
	Expr    string `json:"expr"` // "" = implicit repetition (iota blocks)
	Comment string `json:"comment,omitempty"`
	Typed   bool   `json:"typed"` // carries the enum type explicitly (or implicitly by repetition)
	Names2  string `json:"names2,omitempty"` // second name of a multi-name spec `A, B T = x, y`
	Expr2   string `json:"expr2,omitempty"`
}

// Decl is one top-level declaration of a file.
type Decl struct {
	Kind    string   `json:"kind"` // struct | named | enum | union | alias | raw
	Name    string   `json:"name"`
	Doc     []string `json:"doc,omitempty"` // comment lines (without //) right above the type
	Grouped bool     `json:"grouped,omitempty"`
	// struct
	Fields []Field `json:"fields,omitempty"`
	// named / alias
	Under *TE `json:"under,omitempty"`
	// enum
	EnumUnder string  `json:"enum_under,omitempty"`
	Consts    []Const `json:"consts,omitempty"`
	SingleLine bool   `json:"single_line,omitempty"` // one `const X T = v` per constant instead of a block
	// union
	Members []string        `json:"members,omitempty"`
	PtrRecv map[string]bool `json:"ptr_recv,omitempty"`
	NMethods int            `json:"n_methods,omitempty"`
	// time-like named types get the JSON methods a gomacro user writes for them
	TimeMethods bool `json:"time_methods,omitempty"`
	// raw
	Text string `json:"text,omitempty"`
}

type File struct {
	Name  string  `json:"name"`
	Decls []*Decl `json:"decls"`
}

type Pkg struct {
	Dir     string  `json:"dir"`  // relative to the module root, "" for the case root
	Name    string  `json:"name"` // package name
	Files   []*File `json:"files"`
	Imports map[string]string `json:"imports,omitempty"` // import name -> path (besides time / database/sql, added on demand)
}

// Case is one synthesised program: a main package (first file = the analysed file) and sub packages.
type Case struct {
	ID   string `json:"id"`
	Main *Pkg   `json:"main"`
	Subs []*Pkg `json:"subs,omitempty"`
	Feat []string `json:"features,omitempty"`
}

func (c *Case) AddFeat(f string) {
	for _, x := range c.Feat {
		if x == f {
			return
		}
	}
	c.Feat = append(c.Feat, f)
}

func (c *Case) HasFeat(f string) bool {
	for _, x := range c.Feat {
		if x == f {
			return true
		}
	}
	return false
}

const ModulePath = "acme.org/synth"

func (c *Case) PkgPath(p *Pkg) string {
	out := ModulePath + "/" + c.ID
	if p.Dir != "" {
		out += "/" + p.Dir
	}
	// a Dir starting with ../ places the package next to the case's own directory (a sibling)
	return path.Clean(out)
}

func renderDecl(b *strings.Builder, d *Decl, cur string) {
	if !(d.Kind == "struct" && d.Grouped) {
		for _, l := range d.Doc {
			b.WriteString("//" + l + "\n")
		}
	}
	switch d.Kind {
	case "struct":
		if d.Grouped {
			// the doc comment sits inside the group, on the member it documents
			fmt.Fprintf(b, "type (\n")
			for _, l := range d.Doc {
				b.WriteString("\t//" + l + "\n")
			}
			fmt.Fprintf(b, "\t%s struct {\n", d.Name)
		} else {
			fmt.Fprintf(b, "type %s struct {\n", d.Name)
		}
		for _, f := range d.Fields {
			name := f.Name + " "
			if f.Embedded {
				name = ""
			}
			tag := ""
			if f.Tag != "" {
				tag = " `" + f.Tag + "`"
			}
			fmt.Fprintf(b, "\t%s%s%s\n", name, f.T.Go(cur), tag)
		}
		b.WriteString("}\n")
		if d.Grouped {
			b.WriteString(")\n")
		}
	case "named":
		if d.Grouped {
			fmt.Fprintf(b, "type (\n\t%s %s\n)\n", d.Name, d.Under.Go(cur))
		} else {
			fmt.Fprintf(b, "type %s %s\n", d.Name, d.Under.Go(cur))
		}
		if d.TimeMethods {
			fmt.Fprintf(b, "func (d %[1]s) MarshalJSON() ([]byte, error) { return time.Time(d).MarshalJSON() }\n", d.Name)
			fmt.Fprintf(b, "func (d *%[1]s) UnmarshalJSON(src []byte) error { return (*time.Time)(d).UnmarshalJSON(src) }\n", d.Name)
		}
	case "alias":
		fmt.Fprintf(b, "type %s = %s\n", d.Name, d.Under.Go(cur))
	case "enum":
		fmt.Fprintf(b, "type %s %s\n", d.Name, d.EnumUnder)
		if d.SingleLine {
			for _, c := range d.Consts {
				writeConst(b, d, c, true)
			}
		} else if len(d.Consts) > 0 {
			b.WriteString("const (\n")
			for _, c := range d.Consts {
				writeConst(b, d, c, false)
			}
			b.WriteString(")\n")
		}
	case "union":
		fmt.Fprintf(b, "type %s interface {\n", d.Name)
		for i := 0; i < d.NMethods; i++ {
			fmt.Fprintf(b, "\tis%s%d()\n", d.Name, i)
		}
		b.WriteString("}\n")
		for _, m := range d.Members {
			recv := m
			if d.PtrRecv[m] {
				recv = "*" + m
			}
			for i := 0; i < d.NMethods; i++ {
				fmt.Fprintf(b, "func (%s) is%s%d() {}\n", recv, d.Name, i)
			}
		}
	case "raw":
		b.WriteString(d.Text)
		if !strings.HasSuffix(d.Text, "\n") {
			b.WriteString("\n")
		}
	default:
		panic("bad decl kind " + d.Kind)
	}
	b.WriteString("\n")
}

func writeConst(b *strings.Builder, d *Decl, c Const, single bool) {
	prefix := "\t"
	if single {
		prefix = "const "
	}
	ty := ""
	if c.Typed && c.Expr != "" {
		ty = " " + d.Name
	}
	line := prefix + c.Name
	if c.Names2 != "" {
		line += ", " + c.Names2
	}
	line += ty
	if c.Expr != "" {
		line += " = " + c.Expr
		if c.Names2 != "" {
			line += ", " + c.Expr2
		}
	}
	if c.Comment != "" {
		line += " // " + c.Comment
	}
	b.WriteString(line + "\n")
}

// Render returns the source of one file.
func (c *Case) RenderFile(p *Pkg, f *File) string {
	cur := ""
	if p != c.Main {
		cur = p.Name
	}
	var body strings.Builder
	for _, d := range f.Decls {
		renderDecl(&body, d, cur)
	}
	src := body.String()
	var imports []string
	if strings.Contains(src, "time.") {
		imports = append(imports, `"time"`)
	}
	if strings.Contains(src, "sql.Null") {
		imports = append(imports, `"database/sql"`)
	}
	if strings.Contains(src, "json.") {
		imports = append(imports, `"encoding/json"`)
	}
	var names []string
	for n := range p.Imports {
		names = append(names, n)
	}
	sort.Strings(names)
	for _, n := range names {
		if strings.Contains(src, n+".") {
			imports = append(imports, fmt.Sprintf("%s %q", n, p.Imports[n]))
		}
	}
	var out strings.Builder
	fmt.Fprintf(&out, "package %s\n\n", p.Name)
	if len(imports) > 0 {
		out.WriteString("import (\n")
		for _, i := range imports {
			out.WriteString("\t" + i + "\n")
		}
		out.WriteString(")\n\n")
	}
	out.WriteString(src)
	return out.String()
}

// Module is a set of cases rendered under one go.mod.
type Module struct {
	Root  string // absolute directory of the module (…/go/src/acme.org/synth)
	Cases []*Case
}

// Write renders all cases below dir/go/src/acme.org/synth and returns the module.
func Write(dir string, cases []*Case) (*Module, error) {
	root := filepath.Join(dir, "go", "src", "acme.org", "synth")
	if err := os.MkdirAll(root, 0o755); err != nil {
		return nil, err
	}
	if err := os.WriteFile(filepath.Join(root, "go.mod"), []byte("module "+ModulePath+"\n\ngo 1.23\n"), 0o644); err != nil {
		return nil, err
	}
	for _, c := range cases {
		for _, p := range append([]*Pkg{c.Main}, c.Subs...) {
			d := filepath.Join(root, c.ID, p.Dir)
			if err := os.MkdirAll(d, 0o755); err != nil {
				return nil, err
			}
			for _, f := range p.Files {
				if err := os.WriteFile(filepath.Join(d, f.Name), []byte(c.RenderFile(p, f)), 0o644); err != nil {
					return nil, err
				}
			}
		}
	}
	return &Module{Root: root, Cases: cases}, nil
}

// MainFile returns the absolute path of the analysed file of a case.
func (m *Module) MainFile(c *Case) string {
	return filepath.Join(m.Root, c.ID, c.Main.Files[0].Name)
}

// Sources returns file name -> content for a case (for replays).
func (c *Case) Sources() map[string]string {
	out := map[string]string{}
	for _, p := range append([]*Pkg{c.Main}, c.Subs...) {
		for _, f := range p.Files {
			out[filepath.Join(p.Dir, f.Name)] = c.RenderFile(p, f)
		}
	}
	return out
}

func pick[T any](rng *rand.Rand, xs []T) T { return xs[rng.Intn(len(xs))] }
