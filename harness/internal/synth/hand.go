package synth

import "strings"

// HandWritten returns small corner programs that the random grammar reaches only rarely.
func HandWritten() []*Case {
	mk := func(id, feat, pkgName, src string, other string) *Case {
		c := &Case{ID: id, Feat: []string{"hand:" + feat}}
		c.Main = &Pkg{Name: pkgName, Imports: map[string]string{}}
		c.Main.Files = []*File{{Name: "defs.go", Decls: []*Decl{{Kind: "raw", Name: feat, Text: src}}}}
		if other != "" {
			c.Main.Files = append(c.Main.Files, &File{Name: "other.go", Decls: []*Decl{{Kind: "raw", Name: "other", Text: other}}})
		}
		return c
	}
	withSub := func(c *Case, subName, subSrc string) *Case {
		// "../mdl59": a sibling directory of the case's own directory
		pkgName := subName
		if strings.HasPrefix(subName, "../") {
			pkgName = strings.TrimPrefix(subName, "../")
		}
		sub := &Pkg{Dir: subName, Name: pkgName, Files: []*File{{Name: "s.go", Decls: []*Decl{{Kind: "raw", Name: "s", Text: subSrc}}}}}
		c.Subs = append(c.Subs, sub)
		c.Main.Imports[pkgName] = c.PkgPath(sub)
		return c
	}
	_ = withSub
	// withRoot: a package at the root of the module (its import path is exactly the two-element
	// module path), imported by the case
	withRoot := func(c *Case, src string) *Case {
		sub := &Pkg{Dir: "..", Name: "synth", Files: []*File{{Name: "rootpkg.go", Decls: []*Decl{{Kind: "raw", Name: "s", Text: src}}}}}
		c.Subs = append(c.Subs, sub)
		c.Main.Imports["synth"] = ModulePath
		return c
	}
	gen := "type Gen[T any] struct {\n\tV T\n\tOk bool\n}\n"
	out := []*Case{
		mk("h01", "one-letter-union", "ph01", "type I interface{ isI() }\ntype A struct{ X int }\nfunc (A) isI() {}\ntype W struct{ V I }\n", ""),
		mk("h02", "short-package-name", "ab", "type S struct{ X int; Y []string }\n", ""),
		mk("h03", "multi-name-const-spec", "ph03", "type E int\nconst C, D E = 5, 6\ntype S struct{ V E }\n", ""),
		mk("h04", "generic-basic-arg", "ph04", "type S struct{ G Gen[int64]; H Gen[string] }\n", gen),
		mk("h05", "named-pointer", "ph05", "type T struct{ X int }\ntype P *T\ntype S struct{ V P }\n", ""),
		mk("h06", "self-pointer", "ph06", "type P *P\ntype S struct{ V P }\n", ""),
		mk("h07", "enum-const-trailing-underscore", "ph07", "type E int\nconst (\n\tFoo_ E = iota\n\tBar_\n)\ntype S struct{ V E }\n", ""),
		mk("h08", "empty-interface-field", "ph08", "type S struct{ V interface{}; W any }\n", ""),
		mk("h09", "foreign-interface", "ph09", "type S struct{ V error; W fmtStringer }\ntype fmtStringer interface{ String() string }\n", ""),
		mk("h10", "enum-placeholder-unknown-enum", "ph10", "type E int\nconst EA E = 1\n// gomacro:SQL ADD CHECK (V = #[Other.X])\ntype T struct{ Id int64; V int }\n", "type Other int\nconst X Other = 2\n"),
		mk("h11", "all-unexported-enum", "ph11", "type E int\nconst (\n\ta E = iota\n\tb\n)\ntype S struct{ V E }\n", ""),
		mk("h12", "recursive-through-map-and-array", "ph12", "type N struct{ Kids map[string]N; Pair [2][]N }\n", ""),
		mk("h13", "union-member-named-slice", "ph13", "type U interface{ isU() }\ntype L []U\nfunc (L) isU() {}\ntype S struct{ V U }\n", ""),
		mk("h14", "zero-length-array", "ph14", "type S struct{ Z [0]int; Y [0]string }\n", ""),
		mk("h15", "complex-and-uintptr", "ph15", "type S struct{ C complex128; U uintptr }\n", ""),
		mk("h16", "channel-func-fields", "ph16", "type S struct{ C chan int; F func(int) string }\n", ""),
		mk("h17", "anonymous-struct-field", "ph17", "type S struct{ A struct{ X int } }\n", ""),
		mk("h18", "unknown-special-comment", "ph18", "// gomacro:FOO bar\ntype S struct{ X int }\n", ""),
		mk("h19", "generic-declared-in-analysed-file", "ph19", "type G[T any] struct{ V T }\ntype S struct{ X G[int] }\n", ""),
		mk("h20", "id-only-table", "ph20", "type T struct{ Id int64 }\n", ""),
		mk("h23", "enum-placeholder-undeclared-type", "ph23", "// gomacro:SQL ADD CHECK (V = #[Nope.X])\ntype T struct{ Id int64; V int }\n", ""),
		mk("h24", "enum-placeholder-unknown-member", "ph24", "type E int\nconst EA E = 1\n// gomacro:SQL ADD CHECK (V = #[E.Nope])\ntype T struct{ Id int64; V E }\n", ""),
		mk("h25", "embedded-struct-in-union-cycle", "ph25", "type S1 struct{ A int }\ntype U1 interface{ isU1() }\nfunc (S1) isU1() {}\ntype S3 struct {\n\tF []U1\n\tS1\n}\ntype S4 struct {\n\tB string\n\tS3\n}\n", ""),
		mk("h26", "alias-of-union", "ph26", "type Shape interface{ isShape() }\ntype Circle struct{ R float64 }\nfunc (Circle) isShape() {}\ntype Square struct{ A float64 }\nfunc (Square) isShape() {}\ntype Form = Shape\ntype Drawing struct {\n\tMain Form\n\tOther Shape\n\tC Circle\n}\n", ""),
		mk("h27", "alias-used-as-field", "ph27", "type S struct{ X int }\ntype AS = S\ntype AL = []S\ntype W struct {\n\tA AS\n\tB AL\n\tC map[string]AS\n}\n", ""),
		mk("h28", "generic-embedding-struct-two-instances", "ph28", "type W struct {\n\tA Page[int]\n\tB Page[string]\n\tC Page[Nb]\n}\ntype Nb int\n", "type Meta struct {\n\tId int `json:\"id\"`\n\tRev int\n}\ntype Page[T any] struct {\n\tMeta\n\tItems []T\n}\n"),
		mk("h29", "three-level-embedding", "ph29", "type Timestamps struct{ Created, Updated int64 }\ntype Record struct {\n\tTimestamps\n\tId int64\n}\ntype User struct {\n\tRecord\n\tName string\n}\ntype Admin struct {\n\tUser\n\tLevel int\n}\n", ""),
		mk("h30", "promoted-marker-method", "ph30", "type Shape interface{ isShape(); area() }\ntype base struct{}\nfunc (base) isShape() {}\ntype Circle struct {\n\tbase\n\tR float64\n}\nfunc (Circle) area() {}\ntype Dot struct{ base }\nfunc (Dot) area() {}\ntype W struct{ S Shape }\n", ""),
		mk("h31", "id-after-unexported-fields", "ph31", "type IdAccount int64\ntype Account struct {\n\tdirty bool\n\tversion int\n\tName string\n\tId IdAccount\n}\ntype Entry struct {\n\tnote string\n\tIdAccount IdAccount\n\tID int64\n}\n", ""),
		mk("h32", "unions-sharing-prefix-and-member", "ph32", "type Shape interface{ isShape() }\ntype Shadow interface{ isShadow() }\ntype Circle struct{ R float64 }\nfunc (Circle) isShape() {}\nfunc (Circle) isShadow() {}\ntype W struct {\n\tA Shape\n\tB Shadow\n}\n", ""),
		mk("h33", "wrapper-needed-behind-anonymous-container", "ph33", "type A struct {\n\tItems []B\n\tGrid [1]M\n}\n", "type U interface{ isU() }\ntype X struct{ N int }\nfunc (X) isU() {}\ntype B struct{ V U }\ntype M map[string]U\n"),
		mk("h34", "tagged-siblings-of-union-field", "ph34", "type U interface{ isU() }\ntype X struct{ N int }\nfunc (X) isU() {}\ntype Y string\nfunc (Y) isU() {}\ntype W struct {\n\tV U `json:\"v\"`\n\tK int `json:\"kk\"`\n\tH int `json:\"-\"`\n\tO []int `json:\"o,omitempty\"`\n\tu int\n\tL UL\n\tM UM `json:\"m\"`\n}\ntype UL []U\ntype UM map[string]U\n", ""),
		mk("h35", "embedded-unexported-struct", "ph35", "type timestamps struct {\n\tCreatedAt int\n\tUpdatedAt int `json:\"updated_at\"`\n}\ntype Audit struct{ By string }\ntype Document struct {\n\ttimestamps\n\tAudit\n\tTitle string\n\tTags []string\n}\n", ""),
		mk("h36", "union-unexported-member", "ph36", "type Shape interface{ isShape() }\ntype Circle struct{ R float64 }\nfunc (Circle) isShape() {}\ntype square struct{ A float64 }\nfunc (square) isShape() {}\ntype W struct{ S Shape }\n", ""),
		mk("h37", "union-members-named-slice-and-map", "ph37", "type U interface{ isU() }\ntype Labels []string\nfunc (Labels) isU() {}\ntype Attrs map[string]int\nfunc (Attrs) isU() {}\ntype X struct{ N int }\nfunc (X) isU() {}\ntype W struct {\n\tV U\n\tL UL\n}\ntype UL []U\n", ""),
		withSub(mk("h21", "short-imported-package-name", "ph21", "type S struct{ V ab.T; W ab.N }\n", ""), "ab", "type T struct{ X int }\ntype N int\n"),
		mk("h41", "typed-constants-of-a-standard-library-type", "ph41", "const DefaultTimeout time.Duration = 30 * time.Second\nconst MaxTimeout time.Duration = time.Minute\ntype Job struct {\n\tTimeout time.Duration\n\tName string\n}\n", ""),
		mk("h42", "all-union-fields-ignored", "ph42", "type Payload interface{ isPayload() }\ntype Text struct{ Value string `json:\"value\"` }\nfunc (Text) isPayload() {}\ntype Number struct{ N int }\nfunc (Number) isPayload() {}\ntype Audit struct {\n\tId int\n\tPayload Payload `json:\"payload\" gomacro:\"ignore\"`\n}\ntype Mixed struct {\n\tA Payload `gomacro:\"ignore\"`\n\tB Payload\n}\ntype Event struct{ P Payload }\n", ""),
		mk("h43", "null-struct-over-named-time", "ph43", "type MyDate time.Time\nfunc (d MyDate) MarshalJSON() ([]byte, error) { return time.Time(d).MarshalJSON() }\nfunc (d *MyDate) UnmarshalJSON(b []byte) error { return (*time.Time)(d).UnmarshalJSON(b) }\ntype Stamp time.Time\nfunc (d Stamp) MarshalJSON() ([]byte, error) { return time.Time(d).MarshalJSON() }\nfunc (d *Stamp) UnmarshalJSON(b []byte) error { return (*time.Time)(d).UnmarshalJSON(b) }\ntype OptDate struct {\n\tValid bool\n\tDate MyDate\n}\ntype OptStamp struct {\n\tStamp Stamp\n\tValid bool\n}\ntype T struct {\n\tId int64\n\tD OptDate\n\tS OptStamp\n}\n", ""),
		mk("h46", "omitempty-fields-in-a-json-column", "ph46", "type Mode string\nconst (\n\tAuto Mode = \"auto\"\n\tManual Mode = \"manual\"\n)\ntype Rank int\nconst (\n\tLow Rank = iota + 1\n\tHigh\n)\ntype Settings struct {\n\tName string `json:\"name,omitempty\"`\n\tLevel int `json:\"level,omitempty\"`\n\tRatio float64 `json:\",omitempty\"`\n\tOn bool `json:\"on,omitempty\"`\n\tTags []string `json:\"tags,omitempty\"`\n\tAttrs map[string]int `json:\"attrs,omitempty\"`\n\tMode Mode `json:\"mode\"`\n\tRank Rank\n\tKept string `json:\"kept\"`\n}\ntype T struct {\n\tId int64\n\tS Settings\n\tL []Settings\n\tM map[string]Settings\n}\n", ""),
		mk("h48", "same-directive-text-on-two-tables", "ph48", "// gomacro:SQL ADD UNIQUE(Name)\n// gomacro:SQL ADD CHECK (Rank > 0)\ntype Author struct {\n\tId int64\n\tName string\n\tRank int\n}\n\n// gomacro:SQL ADD UNIQUE(Name)\ntype Publisher struct {\n\tId int64\n\tName string\n}\n\n// gomacro:SQL ADD UNIQUE(Name)\n// gomacro:SQL ADD CHECK (Rank > 0)\ntype Shelf struct {\n\tId int64\n\tName string\n\tRank int\n}\n", ""),
		mk("h49", "embedded-struct-with-a-tag-without-name", "ph49", "type Base struct {\n\tA int\n\tB string `json:\"b\"`\n}\ntype Meta struct {\n\tKind string `json:\"kind\"`\n\tVersion int\n}\ntype Doc struct {\n\tBase `json:\",omitempty\"`\n\tMeta `json:\",inline\"`\n\tTitle string\n}\ntype Note struct {\n\tMeta `json:\"\"`\n\tText string\n}\n", ""),
		mk("h50", "embedded-struct-with-a-named-tag", "ph50", "type Base struct {\n\tA int\n\tB string `json:\"b\"`\n}\ntype Hidden struct{ H int }\ntype Doc struct {\n\tBase `json:\"base\"`\n\tTitle string\n}\ntype Doc2 struct {\n\tHidden `json:\"-\"`\n\tTitle string\n}\n", ""),
		mk("h51", "null-struct-over-an-alias-of-time", "ph51", "type TT = time.Time\ntype NT struct {\n\tValid bool\n\tT TT\n}\ntype Row struct {\n\tId int64\n\tAt NT\n}\n", ""),
		mk("h52", "select-key-naming-an-unknown-column", "ph52", "// gomacro:SQL _SELECT KEY(Foo)\ntype Row struct {\n\tId int64\n\tName string\n}\n", ""),
		mk("h53", "union-member-through-a-promoted-method", "ph53", "type Shape interface{ isShape() }\ntype Circle struct{ R float64 }\nfunc (Circle) isShape() {}\ntype Square struct{ Side float64 }\nfunc (Square) isShape() {}\ntype LabelledCircle struct {\n\tCircle\n\tLabel string\n}\ntype Drawing struct {\n\tMain Shape\n\tAll Shapes\n}\ntype Shapes []Shape\n", ""),
		mk("h54", "embedded-pointer-and-pointer-fields", "ph54", "type Audit struct {\n\tCreatedAt time.Time\n\tBy string\n}\ntype Address struct{ City string }\ntype Level int\nconst (\n\tLow Level = iota + 1\n\tHigh\n)\ntype Order struct {\n\t*Audit\n\tAddress\n\tId int64\n\tNext *Address\n\tLevels []*Level\n}\n", ""),
		mk("h56", "maps-keyed-by-an-enum-and-by-strings-with-one-element-type", "ph56", "type Level int\nconst (\n\tLow Level = iota\n\tMid\n\tHigh\n)\ntype Code string\nconst (\n\tCa Code = \"a\"\n\tCb Code = \"b\"\n)\ntype Prefs struct {\n\tId int64\n\tByLevel map[Level]string\n\tLabels map[string]string\n\tByCode map[Code]int\n\tCounts map[string]int\n}\ntype Other struct {\n\tId int64\n\tNames map[string]string\n\tPerLevel map[Level]string\n}\n", ""),
		mk("h44", "json-column-of-recursive-named-container", "ph44", "type Tree []Tree\ntype Dict map[string]Dict\ntype T struct {\n\tId int64\n\tTree Tree\n\tDict Dict\n}\n", ""),
		mk("h45", "enum-constants-over-two-files-with-equal-values", "ph45", "type Color int\nconst (\n\tRed Color = iota\n\tGreen\n\tBlue\n)\ntype Paint struct {\n\tC Color\n\tL Level\n}\n", "const defaultColor = Green\nconst fallbackColor Color = Red\ntype Level uint8\nconst (\n\tLow Level = iota\n\tHigh\n)\nconst levelUnset Level = 255\nconst levelDefault = Low\n"+bigPadding()),
		mk("h58", "outer-field-with-the-go-name-of-a-promoted-field", "ph58", "type Stamps struct {\n\tID int `json:\"revision_id\"`\n\tAt string `json:\"at\"`\n}\ntype Doc struct {\n\tID int `json:\"id\"`\n\tStamps\n\tTitle string\n}\ntype Hidden struct {\n\tID int `json:\"-\"`\n\tStamps\n\tNote string\n}\n", ""),
		withRoot(mk("h62", "enum-of-the-package-at-the-module-root", "ph62", "type Order struct {\n\tS synth.RootStatus\n\tHistory []synth.RootStatus\n\tByMode map[synth.RootMode]int\n}\n", ""), "type RootStatus int\nconst (\n\tRootOpen RootStatus = iota\n\tRootPaid\n\tRootShipped\n)\ntype RootMode string\nconst (\n\tRootFast RootMode = \"fast\"\n\tRootSlow RootMode = \"slow\"\n)\n"),
		mk("h63", "embedded-struct-tagged-gomacro-data-ignore-and-used-elsewhere", "ph63", "type Kind int\nconst (\n\tPlain Kind = iota + 1\n\tFancy\n)\ntype Audit struct {\n\tKind Kind\n\tBy string\n\tTags []string\n}\ntype Order struct {\n\tAudit `gomacro-data:\"ignore\"`\n\tN int\n}\ntype Report struct {\n\tA Audit\n\tL []Audit\n}\n", ""),
		withSub(mk("h64", "jsonb-column-reaching-an-enum-of-a-sub-package-with-a-constant-in-the-analysed-package", "ph64", "const DefaultLevel = levels.Mid\ntype Meta struct {\n\tLevel levels.Level\n\tNote string\n\tHistory []levels.Level\n}\ntype Doc struct {\n\tId int64\n\tMeta Meta\n\tByName map[string]levels.Level\n}\n", ""), "levels", "type Level int\nconst (\n\tLow Level = iota\n\tMid\n\tHigh\n)\n"),
		mk("h66", "structs-embedding-each-other-through-pointers", "ph66", "type Order struct {\n\t*Customer\n\tRef string\n\tTotal int\n}\ntype Customer struct {\n\t*Order\n\tName string\n\tAge int\n}\ntype Basket struct {\n\tO Order\n\tC []Customer\n}\n", ""),
		mk("h61", "union-members-of-another-file-through-promoted-methods", "ph61", "type Shape interface{ isShape() }\ntype Drawing struct {\n\tMain Shape\n\tName string\n}\n", "type base struct{ ID int }\nfunc (base) isShape() {}\ntype Circle struct {\n\tbase\n\tR float64\n}\ntype Square struct {\n\t*base\n\tSide float64\n}\ntype Dot struct{ X, Y int }\nfunc (Dot) isShape() {}\n"),
		mk("h60", "union-marker-method-on-a-pointer-receiver", "ph60", "type Shape interface{ isShape() }\ntype Circle struct{ R int }\nfunc (Circle) isShape() {}\ntype Square struct{ Side int }\nfunc (Square) isShape() {}\n// Canvas satisfies Shape through its pointer only: the value type is no member\ntype Canvas struct{ W, H int }\nfunc (c *Canvas) isShape() {}\ntype Drawing struct {\n\tMain Shape\n\tAll []Canvas\n}\n", ""),
		withSub(mk("h57", "union-struct-embedding-a-struct-of-a-sub-package", "ph57", "type Shape interface{ isShape() }\ntype Circle struct{ R float64 }\nfunc (Circle) isShape() {}\ntype Drawing struct {\n\tmeta.Info\n\tMain Shape\n\tTitle string\n}\n", ""), "meta", "type Kind int\nconst (\n\tDraft Kind = iota\n\tFinal\n)\ntype Label string\ntype Info struct {\n\tKind Kind\n\tLabels []Label\n\tRev int\n}\n"),
		withSub(mk("h59", "enum-of-a-sibling-package", "ph59", "type Order struct {\n\tS mdl59.Status\n\tC mdl59.Currency\n\tHist map[string]mdl59.Status\n}\n", ""), "../mdl59", "type Status int\nconst (\n\tOpen Status = iota\n\tPaid\n\tClosed\n)\ntype Currency string\nconst (\n\tEur Currency = \"EUR\"\n\tUsd Currency = \"USD\"\n)\n"),
		withSub(mk("h40", "embedded-non-struct-fields", "ph40", "type Kind int\nconst (\n\tPlain Kind = iota + 1\n\tFancy\n)\ntype Level string\nconst (\n\tLow Level = \"low\"\n\tHigh Level = \"high\"\n)\ntype Tags []string\ntype Shape struct {\n\tKind\n\tLevel\n\tTags\n\tName string\n\tAt geo.Point\n}\n", ""), "geo", "type Geometry interface{ isGeometry() }\ntype Point struct{ X, Y float64 }\nfunc (Point) isGeometry() {}\ntype Line struct{ A, B Point }\nfunc (Line) isGeometry() {}\n"),
		withSub(mk("h38", "named-basic-first-reached-in-its-own-package", "ph38", "type Link struct {\n\tOwner own.Owner\n\tID own.ID\n}\n", ""), "own", "type ID int64\ntype Owner struct{ ID ID }\n"),
		withSub(mk("h39", "named-basic-used-by-two-files", "ph39", "type A struct {\n\tK ids.Key\n\tL []ids.Key\n\tM map[ids.Key]ids.Name\n}\n", "type B struct {\n\tK ids.Key\n\tN ids.Name\n}\n"), "ids", "type Key int64\ntype Name string\ntype Holder struct {\n\tK Key\n\tN Name\n}\n"),
		withSub(mk("h22", "two-letter-imported-package-name", "ph22", "type S struct{ V p2.T }\n", ""), "p2", "type T struct{ X string }\n"),
	}
	out = append(out, RecursionShapes()...)
	out = append(out, SameNamedPackages()...)
	return out
}

// CaseOnlyNames: type names that differ by letter case only. TypeScript and Go keep them apart; the
// Dart class names (title-cased) and the SQL table names of such a program collide (a recorded
// finding of C06), so only the runners of C03 and C06 include it.
func CaseOnlyNames() []*Case {
	mk := func(id, feat, pkgName, src string, other string) *Case {
		c := &Case{ID: id, Feat: []string{"hand:" + feat}}
		c.Main = &Pkg{Name: pkgName, Imports: map[string]string{}}
		c.Main.Files = []*File{{Name: "defs.go", Decls: []*Decl{{Kind: "raw", Name: feat, Text: src}}}}
		return c
	}
	return []*Case{
		mk("h55", "type-names-differing-by-case-only", "ph55", "type Item struct{ A int }\ntype item struct{ B string }\ntype Kind int\nconst (\n\tKa Kind = iota\n\tKb\n)\ntype kind string\nconst (\n\tXa kind = \"xa\"\n\tXb kind = \"xb\"\n)\ntype Order struct {\n\tMain Item\n\tLines []item\n\tK Kind\n\tX kind\n}\n", ""),
	}
}

// KnownDefects returns programs that reproduce recorded findings which the random grammar is kept
// away from (they would show in every check that compiles or marshals the program); only the
// runner of the property the finding is recorded under includes them.
func KnownDefects() []*Case {
	c := &Case{ID: "kd01", Feat: []string{"hand:embedded-unexported-struct-named-by-its-tag"}}
	c.Main = &Pkg{Name: "pkd01", Imports: map[string]string{}}
	c.Main.Files = []*File{{Name: "defs.go", Decls: []*Decl{{Kind: "raw", Name: "kd01", Text: "type base struct {\n\tA int\n\tB string\n}\ntype Doc struct {\n\tbase `json:\"base\"`\n\tTitle string\n}\n"}}}}
	return []*Case{c}
}

// RecursionShapes returns one program per way a type can refer to itself (termination of the analysis).
func RecursionShapes() []*Case {
	shapes := []struct{ name, src string }{
		{"slice", "type R []R\n"},
		{"struct-slice", "type R struct{ Kids []R }\n"},
		{"struct-map", "type R struct{ Kids map[string]R }\n"},
		{"struct-array-slice", "type R struct{ Kids [2][]R }\n"},
		{"named-map", "type R map[string]R\n"},
		{"named-map-slice", "type R map[string][]R\n"},
		{"array-of-slices", "type R [2][]R\n"},
		{"array-pointer", "type R [2]*R\n"},
		{"array-array-pointer", "type R [2][2]*R\n"},
		{"slice-pointer", "type R []*R\n"},
		{"map-pointer-key", "type R map[*R]int\n"},
		{"map-pointer-elem", "type R map[string]*R\n"},
		{"struct-pointer", "type R struct{ Next *R }\n"},
		{"mutual-structs", "type A struct{ Bs []B }\ntype B struct{ As map[string]A }\n"},
		{"mutual-named", "type A []B\ntype B map[string]A\n"},
		{"union-member-in-own-key", "type Key interface{ isKey() }\ntype Registry map[Key]string\nfunc (Registry) isKey() {}\ntype W struct{ R Registry }\n"},
		{"union-member-list-of-union", "type U interface{ isU() }\ntype L []U\nfunc (L) isU() {}\ntype M map[string]U\nfunc (M) isU() {}\n"},
		{"union-struct-cycle", "type U interface{ isU() }\ntype N struct{ Kids []U }\nfunc (N) isU() {}\n"},
		{"embedded-cycle-through-slice", "type A struct {\n\tB\n\tX int\n}\ntype B struct{ As []A }\n"},
	}
	var out []*Case
	for i, sh := range shapes {
		id := "rec" + string(rune('a'+i))
		c := &Case{ID: id, Feat: []string{"hand:recursion:" + sh.name}}
		c.Main = &Pkg{Name: "p" + id, Imports: map[string]string{}}
		c.Main.Files = []*File{{Name: "defs.go", Decls: []*Decl{{Kind: "raw", Name: sh.name, Text: sh.src}}}}
		out = append(out, c)
	}
	return out
}

// SameNamedPackages: two imported packages with the same package name (and the same type names).
func SameNamedPackages() []*Case {
	c := &Case{ID: "samepkg", Feat: []string{"hand:same-package-name"}}
	c.Main = &Pkg{Name: "psame", Imports: map[string]string{}}
	body := "type Item struct{ X int }\ntype Kind int\nconst (\n\tKA Kind = iota\n\tKB\n)\ntype U interface{ isU() }\nfunc (Item) isU() {}\n"
	a := &Pkg{Dir: "a/model", Name: "model", Files: []*File{{Name: "m.go", Decls: []*Decl{{Kind: "raw", Name: "m", Text: body}}}}}
	b := &Pkg{Dir: "b/model", Name: "model", Files: []*File{{Name: "m.go", Decls: []*Decl{{Kind: "raw", Name: "m", Text: body + "type Extra struct{ Y string }\n"}}}}}
	c.Subs = []*Pkg{a, b}
	c.Main.Imports["amodel"] = c.PkgPath(a)
	c.Main.Imports["bmodel"] = c.PkgPath(b)
	c.Main.Files = []*File{{Name: "defs.go", Decls: []*Decl{{Kind: "raw", Name: "T", Text: "type T struct {\n\tSold []amodel.Item\n\tBought []bmodel.Item\n\tKa amodel.Kind\n\tKb bmodel.Kind\n\tMa map[string]amodel.Item\n\tMb map[string]bmodel.Item\n\tUa amodel.U\n\tUb bmodel.U\n\tE bmodel.Extra\n}\n"}}}}
	// import diamond with a constant of a foreign type
	d := &Case{ID: "diamond", Feat: []string{"hand:import-diamond-foreign-const"}}
	d.Main = &Pkg{Name: "pdiamond", Imports: map[string]string{}}
	kinds := &Pkg{Dir: "kinds", Name: "kinds", Files: []*File{{Name: "k.go", Decls: []*Decl{{Kind: "raw", Name: "k", Text: "type Kind int\nconst (\n\tSmall Kind = iota\n\tMedium\n\tLarge\n)\n"}}}}}
	extra := &Pkg{Dir: "extra", Name: "extra", Imports: map[string]string{}, Files: []*File{{Name: "e.go", Decls: []*Decl{{Kind: "raw", Name: "e", Text: "const Default kinds.Kind = 10\ntype E struct{ K kinds.Kind }\n"}}}}}
	d.Subs = []*Pkg{kinds, extra}
	extra.Imports["kinds"] = d.PkgPath(kinds)
	d.Main.Imports["kinds"] = d.PkgPath(kinds)
	d.Main.Imports["extra"] = d.PkgPath(extra)
	d.Main.Files = []*File{{Name: "defs.go", Decls: []*Decl{{Kind: "raw", Name: "T", Text: "type T struct {\n\tK kinds.Kind\n\tE extra.E\n}\n"}}}}
	// the same with the home package of the enum sorting BEFORE the package that declares a constant of its type
	d2 := &Case{ID: "diamond2", Feat: []string{"hand:import-diamond-foreign-const-home-first"}}
	d2.Main = &Pkg{Name: "pdiamond2", Imports: map[string]string{}}
	kinds2 := &Pkg{Dir: "kinds", Name: "kinds", Files: []*File{{Name: "k.go", Decls: []*Decl{{Kind: "raw", Name: "k", Text: "type Kind uint8\nconst (\n\tFood Kind = iota\n\tDrink\n\tOther\n)\n"}}}}}
	settings := &Pkg{Dir: "settings", Name: "settings", Imports: map[string]string{}, Files: []*File{{Name: "e.go", Decls: []*Decl{{Kind: "raw", Name: "e", Text: "const DefaultKind = kinds.Drink\ntype Prefs struct{ K kinds.Kind }\n"}}}}}
	d2.Subs = []*Pkg{kinds2, settings}
	settings.Imports["kinds"] = d2.PkgPath(kinds2)
	d2.Main.Imports["kinds"] = d2.PkgPath(kinds2)
	d2.Main.Imports["settings"] = d2.PkgPath(settings)
	d2.Main.Files = []*File{{Name: "defs.go", Decls: []*Decl{{Kind: "raw", Name: "T", Text: "type T struct {\n\tK kinds.Kind\n\tP settings.Prefs\n\tM map[string]kinds.Kind\n}\n"}}}}
	// two packages of one name holding enums only (no union: every generator accepts the program)
	e := &Case{ID: "samepkg2", Feat: []string{"hand:same-package-name-enums-only"}}
	e.Main = &Pkg{Name: "psame2", Imports: map[string]string{}}
	ebody := "type Item struct{ X int }\ntype Status int\nconst (\n\tOpen Status = iota + 1\n\tClosed\n\tLost\n)\ntype Mode string\nconst (\n\tFast Mode = \"fast\"\n\tSlow Mode = \"slow\"\n)\n"
	ea := &Pkg{Dir: "a/models", Name: "models", Files: []*File{{Name: "m.go", Decls: []*Decl{{Kind: "raw", Name: "m", Text: ebody}}}}}
	eb := &Pkg{Dir: "b/models", Name: "models", Files: []*File{{Name: "m.go", Decls: []*Decl{{Kind: "raw", Name: "m", Text: ebody}}}}}
	e.Subs = []*Pkg{ea, eb}
	e.Main.Imports["amodels"] = e.PkgPath(ea)
	e.Main.Imports["bmodels"] = e.PkgPath(eb)
	e.Main.Files = []*File{{Name: "defs.go", Decls: []*Decl{{Kind: "raw", Name: "T", Text: "type Order struct {\n\tSa amodels.Status\n\tSb bmodels.Status\n\tMa amodels.Mode\n\tMb bmodels.Mode\n\tHist []bmodels.Status\n\tItems []amodels.Item\n}\n"}}}}
	// a sub-package named like the analysed package itself (imported under another name)
	f := &Case{ID: "h67", Feat: []string{"hand:sub-package-named-like-the-analysed-package"}}
	f.Main = &Pkg{Name: "ph67", Imports: map[string]string{}}
	fc := &Pkg{Dir: "core/ph67", Name: "ph67", Files: []*File{{Name: "c.go", Decls: []*Decl{{Kind: "raw", Name: "c", Text: "type Level int\nconst (\n\tLow Level = iota + 1\n\tMid\n\tHigh\n)\ntype Unit string\nconst (\n\tKg Unit = \"kg\"\n\tLb Unit = \"lb\"\n)\n"}}}}}
	f.Subs = []*Pkg{fc}
	f.Main.Imports["core"] = f.PkgPath(fc)
	f.Main.Files = []*File{{Name: "defs.go", Decls: []*Decl{{Kind: "raw", Name: "T", Text: "type Order struct {\n\tL core.Level\n\tLs []core.Level\n\tU core.Unit\n\tN int\n}\n"}}}}
	return []*Case{c, d, d2, e, f}
}

// ManyImports returns programs whose types come from several packages (so that the import lists
// of the Go generators have several entries and map iteration order matters).
func ManyImports() []*Case {
	var out []*Case
	for i, names := range [][]string{{"alpha", "beta", "gamma"}, {"aa", "bbb", "cccc", "ddddd", "eeee"}, {"one", "two"}} {
		c := &Case{ID: "mi" + string(rune('0'+i)), Feat: []string{"hand:many-imports"}}
		c.Main = &Pkg{Name: "pmi", Imports: map[string]string{}}
		src := "type T struct {\n\tId int64\n"
		for k, n := range names {
			sub := &Pkg{Dir: n, Name: n, Files: []*File{{Name: "s.go", Decls: []*Decl{{Kind: "raw", Name: "s", Text: "type T struct{ X int }\ntype N int64\ntype L []int\n"}}}}}
			c.Subs = append(c.Subs, sub)
			c.Main.Imports[n] = c.PkgPath(sub)
			src += "\tA" + string(rune('a'+k)) + " " + n + ".T\n\tB" + string(rune('a'+k)) + " " + n + ".N\n\tC" + string(rune('a'+k)) + " " + n + ".L\n"
		}
		src += "\tN sql.NullInt64\n\tW time.Time\n}\n"
		c.Main.Files = []*File{{Name: "defs.go", Decls: []*Decl{{Kind: "raw", Name: "T", Text: src}}}}
		out = append(out, c)
	}
	return out
}

// bigPadding: a few thousand unused declarations, so that the file holding them is parsed well after
// (or before) its small sibling whatever the schedule of the loader's parser goroutines
func bigPadding() string {
	var b []byte
	for i := 0; i < 2500; i++ {
		b = append(b, []byte("func pad"+itoa(i)+"(a, b int, s []string) (int, string) { if a > b { return a - b, s[0] }; return b*a + "+itoa(i)+", \"x\" }\n")...)
	}
	return string(b)
}

func itoa(i int) string {
	if i == 0 {
		return "0"
	}
	var d []byte
	for i > 0 {
		d = append([]byte{byte('0' + i%10)}, d...)
		i /= 10
	}
	return string(d)
}
