package synth

// HandWritten returns small corner programs that the random grammar reaches only rarely.
func HandWritten() []*Case {
	mk := func(id, feat, pkgName, src string, other string) *Case {
		c := &Case{ID: id, Feat: []string{"hand:" + feat}}
		c.Main = &Pkg{Name: pkgName, Imports: map[string]string{}}
		c.Main.Files = []*File{{Name: "defs.go", Decls: []*Decl{{Kind: "raw", Name: feat, Text: src}}}}
		if other != "" {
			c.Main.Files = append(c.Main.Files, &File{Name: "other.go", Decls: []*Decl{{Kind: "raw", Name: "other", Text: other}}})
		}
		return c
	}
	withSub := func(c *Case, subName, subSrc string) *Case {
		sub := &Pkg{Dir: subName, Name: subName, Files: []*File{{Name: "s.go", Decls: []*Decl{{Kind: "raw", Name: "s", Text: subSrc}}}}}
		c.Subs = append(c.Subs, sub)
		c.Main.Imports[subName] = c.PkgPath(sub)
		return c
	}
	_ = withSub
	gen := "type Gen[T any] struct {\n\tV T\n\tOk bool\n}\n"
	return []*Case{
		mk("h01", "one-letter-union", "ph01", "type I interface{ isI() }\ntype A struct{ X int }\nfunc (A) isI() {}\ntype W struct{ V I }\n", ""),
		mk("h02", "short-package-name", "ab", "type S struct{ X int; Y []string }\n", ""),
		mk("h03", "multi-name-const-spec", "ph03", "type E int\nconst C, D E = 5, 6\ntype S struct{ V E }\n", ""),
		mk("h04", "generic-basic-arg", "ph04", "type S struct{ G Gen[int64]; H Gen[string] }\n", gen),
		mk("h05", "named-pointer", "ph05", "type T struct{ X int }\ntype P *T\ntype S struct{ V P }\n", ""),
		mk("h06", "self-pointer", "ph06", "type P *P\ntype S struct{ V P }\n", ""),
		mk("h07", "enum-const-trailing-underscore", "ph07", "type E int\nconst (\n\tFoo_ E = iota\n\tBar_\n)\ntype S struct{ V E }\n", ""),
		mk("h08", "empty-interface-field", "ph08", "type S struct{ V interface{}; W any }\n", ""),
		mk("h09", "foreign-interface", "ph09", "type S struct{ V error; W fmtStringer }\ntype fmtStringer interface{ String() string }\n", ""),
		mk("h10", "enum-placeholder-unknown-enum", "ph10", "type E int\nconst EA E = 1\n// gomacro:SQL ADD CHECK (V = #[Other.X])\ntype T struct{ Id int64; V int }\n", "type Other int\nconst X Other = 2\n"),
		mk("h11", "all-unexported-enum", "ph11", "type E int\nconst (\n\ta E = iota\n\tb\n)\ntype S struct{ V E }\n", ""),
		mk("h12", "recursive-through-map-and-array", "ph12", "type N struct{ Kids map[string]N; Pair [2][]N }\n", ""),
		mk("h13", "union-member-named-slice", "ph13", "type U interface{ isU() }\ntype L []U\nfunc (L) isU() {}\ntype S struct{ V U }\n", ""),
		mk("h14", "zero-length-array", "ph14", "type S struct{ Z [0]int; Y [0]string }\n", ""),
		mk("h15", "complex-and-uintptr", "ph15", "type S struct{ C complex128; U uintptr }\n", ""),
		mk("h16", "channel-func-fields", "ph16", "type S struct{ C chan int; F func(int) string }\n", ""),
		mk("h17", "anonymous-struct-field", "ph17", "type S struct{ A struct{ X int } }\n", ""),
		mk("h18", "unknown-special-comment", "ph18", "// gomacro:FOO bar\ntype S struct{ X int }\n", ""),
		mk("h19", "generic-declared-in-analysed-file", "ph19", "type G[T any] struct{ V T }\ntype S struct{ X G[int] }\n", ""),
		mk("h20", "id-only-table", "ph20", "type T struct{ Id int64 }\n", ""),
		mk("h23", "enum-placeholder-undeclared-type", "ph23", "// gomacro:SQL ADD CHECK (V = #[Nope.X])\ntype T struct{ Id int64; V int }\n", ""),
		mk("h24", "enum-placeholder-unknown-member", "ph24", "type E int\nconst EA E = 1\n// gomacro:SQL ADD CHECK (V = #[E.Nope])\ntype T struct{ Id int64; V E }\n", ""),
		mk("h25", "embedded-struct-in-union-cycle", "ph25", "type S1 struct{ A int }\ntype U1 interface{ isU1() }\nfunc (S1) isU1() {}\ntype S3 struct {\n\tF []U1\n\tS1\n}\ntype S4 struct {\n\tB string\n\tS3\n}\n", ""),
		withSub(mk("h21", "short-imported-package-name", "ph21", "type S struct{ V ab.T; W ab.N }\n", ""), "ab", "type T struct{ X int }\ntype N int\n"),
		withSub(mk("h22", "two-letter-imported-package-name", "ph22", "type S struct{ V p2.T }\n", ""), "p2", "type T struct{ X string }\n"),
	}
}

// ManyImports returns programs whose types come from several packages (so that the import lists
// of the Go generators have several entries and map iteration order matters).
func ManyImports() []*Case {
	var out []*Case
	for i, names := range [][]string{{"alpha", "beta", "gamma"}, {"aa", "bbb", "cccc", "ddddd", "eeee"}, {"one", "two"}} {
		c := &Case{ID: "mi" + string(rune('0'+i)), Feat: []string{"hand:many-imports"}}
		c.Main = &Pkg{Name: "pmi", Imports: map[string]string{}}
		src := "type T struct {\n\tId int64\n"
		for k, n := range names {
			sub := &Pkg{Dir: n, Name: n, Files: []*File{{Name: "s.go", Decls: []*Decl{{Kind: "raw", Name: "s", Text: "type T struct{ X int }\ntype N int64\ntype L []int\n"}}}}}
			c.Subs = append(c.Subs, sub)
			c.Main.Imports[n] = c.PkgPath(sub)
			src += "\tA" + string(rune('a'+k)) + " " + n + ".T\n\tB" + string(rune('a'+k)) + " " + n + ".N\n\tC" + string(rune('a'+k)) + " " + n + ".L\n"
		}
		src += "\tN sql.NullInt64\n\tW time.Time\n}\n"
		c.Main.Files = []*File{{Name: "defs.go", Decls: []*Decl{{Kind: "raw", Name: "T", Text: src}}}}
		out = append(out, c)
	}
	return out
}
