package synth

import (
	"fmt"
	"strings"
)

// addSQLFeatures adds what the SQL side looks at: id fields, foreign keys by ID type and by tag,
// guards, nullable wrappers, and `gomacro:SQL` / `gomacro:QUERY` comment directives.
func addSQLFeatures(g *gen) {
	for i, s := range g.structs {
		// table structs do not embed other table structs (both carry an id column)
		var kept []Field
		for _, f := range s.Fields {
			if !f.Embedded {
				kept = append(kept, f)
			}
		}
		s.Fields = kept
		// sqlcrud needs named types for array / jsonb columns (it implements sql.Valuer on them):
		// most anonymous containers become named declarations
		for k := range s.Fields {
			f := &s.Fields[k]
			// a column of an ID type is a foreign key to the table the type names: sub.SubID names
			// a table the sub package does not have (not a valid model) — use a plain integer
			if f.T.K == "ref" && f.T.Name == "SubID" {
				f.T = Basic("int64")
			}
			if (f.T.K == "slice" || f.T.K == "array" || f.T.K == "map") && !(f.T.K == "slice" && f.T.E.K == "basic" && f.T.E.B == "byte") && g.chance(0.85) {
				name := g.uniq("C")
				g.lists = append(g.lists, &Decl{Kind: "named", Name: name, Under: f.T})
				f.T = Ref("", name)
			}
		}
		// id field, in various spellings
		idName := pick(g.rng, []string{"Id", "ID", "Id", "Id"})
		idType := Basic("int64")
		idDecl := &Decl{Kind: "named", Name: "Id" + s.Name, Under: Basic("int64")}
		if g.chance(0.5) {
			g.nameds = append(g.nameds, idDecl)
			idType = Ref("", idDecl.Name)
		}
		if g.chance(0.85) {
			// the id field may sit anywhere, also after unexported fields
			pos := 0
			if len(s.Fields) > 0 && g.chance(0.4) {
				pos = 1 + g.rng.Intn(len(s.Fields))
				g.c.AddFeat("sql:id-not-first")
			}
			fs := append([]Field{}, s.Fields[:pos]...)
			fs = append(fs, Field{Name: idName, T: idType})
			s.Fields = append(fs, s.Fields[pos:]...)
			g.c.AddFeat("sql:id:" + idName)
		} else {
			g.c.AddFeat("sql:link-table")
		}
		// the same jsonb column (name and type) in several tables
		if g.chance(0.3) {
			if !g.sharedDeclared {
				g.sharedDeclared = true
				g.lists = append(g.lists, &Decl{Kind: "named", Name: "SharedParams", Under: Map(Basic("string"), Basic("bool"))})
			}
			s.Fields = append(s.Fields, Field{Name: "Params", T: Ref("", "SharedParams")})
			g.c.AddFeat("sql:shared-json-column")
		}
		// foreign key to an earlier struct, or to the table itself (a tree)
		if g.chance(0.6) {
			target := s
			if i > 0 && g.chance(0.8) {
				target = g.structs[g.rng.Intn(i)]
			} else {
				g.c.AddFeat("sql:self-reference")
			}
			switch g.rng.Intn(3) {
			case 0:
				s.Fields = append(s.Fields, Field{Name: g.uniq("Fk"), T: Basic("int64"), Tag: fmt.Sprintf(`gomacro-sql-foreign:"%s"`, target.Name)})
			case 1:
				s.Fields = append(s.Fields, Field{Name: g.uniq("Fk"), T: Raw("sql.NullInt64"), Tag: fmt.Sprintf(`gomacro-sql-foreign:"%s" gomacro-sql-on-delete:"CASCADE"`, target.Name)})
			default:
				for _, n := range g.nameds {
					if n.Name == "Id"+target.Name {
						tag := pick(g.rng, []string{"", `gomacro-sql-on-delete:"SET NULL"`})
						if target == s {
							// a field of the table's OWN id type is a key into the table itself only
							// when the tag says so (a tree: Parent IdNode)
							tag = strings.TrimSpace(fmt.Sprintf(`gomacro-sql-foreign:"%s" %s`, s.Name, pick(g.rng, []string{"", `gomacro-sql-on-delete:"CASCADE"`})))
							g.c.AddFeat("sql:self-reference-by-own-id-type")
						}
						s.Fields = append(s.Fields, Field{Name: g.uniq("Fk"), T: Ref("", n.Name), Tag: tag})
					}
				}
			}
			g.c.AddFeat("sql:foreign-key")
		}
		if len(g.enums) > 0 && g.chance(0.2) {
			e := g.enums[0]
			var exp string
			for _, c := range e.Consts {
				if c.Name != "_" && c.Name[0] != 'c' {
					exp = c.Name
				}
			}
			if exp != "" {
				// a guard sits anywhere among the fields, also before the id
				gf := Field{Name: "guard" + fmt.Sprint(i), T: Ref("", e.Name), Tag: fmt.Sprintf(`gomacro-sql-guard:"#[%s.%s]"`, e.Name, exp)}
				pos := g.rng.Intn(len(s.Fields) + 1)
				fs := append([]Field{}, s.Fields[:pos]...)
				fs = append(fs, gf)
				s.Fields = append(fs, s.Fields[pos:]...)
				g.c.AddFeat("sql:guard")
			}
		}
		// a guard whose value is a string literal holding words: the name of a table struct of the
		// file, a name that contains one
		if g.chance(0.15) {
			word := pick(g.rng, []string{s.Name, "S0", "My" + s.Name, s.Name + " item", "x"})
			gf := Field{Name: "kind" + fmt.Sprint(i), T: Basic("string"), Tag: fmt.Sprintf(`gomacro-sql-guard:"'%s'"`, word)}
			pos := g.rng.Intn(len(s.Fields) + 1)
			fs := append([]Field{}, s.Fields[:pos]...)
			fs = append(fs, gf)
			s.Fields = append(fs, s.Fields[pos:]...)
			g.c.AddFeat("sql:guard-literal")
		}
		// comment directives
		var cols []string
		for _, f := range s.Fields {
			if f.Name[0] >= 'A' && f.Name[0] <= 'Z' && !f.Embedded {
				cols = append(cols, f.Name)
			}
		}
		if len(cols) > 0 && g.chance(0.4) {
			c := pick(g.rng, cols)
			s.Doc = append(s.Doc, fmt.Sprintf(" gomacro:SQL ADD UNIQUE(%s)", c))
			g.c.AddFeat("sql:unique")
		}
		// a guard column named in a key or uniqueness directive, before a regular column
		guardCol := ""
		for _, f := range s.Fields {
			if strings.Contains(f.Tag, "gomacro-sql-guard") {
				guardCol = f.Name
			}
		}
		if guardCol != "" && len(cols) > 0 && g.chance(0.6) {
			c := pick(g.rng, cols)
			if g.chance(0.5) {
				s.Doc = append(s.Doc, fmt.Sprintf(" gomacro:SQL _SELECT KEY (%s, %s)", guardCol, c))
			} else {
				s.Doc = append(s.Doc, fmt.Sprintf(" gomacro:SQL ADD UNIQUE(%s, %s)", guardCol, c))
			}
			g.c.AddFeat("sql:guard-in-key-directive")
		}
		// the same directive text on several tables of the file (every table has an Id column)
		if g.chance(0.35) {
			s.Doc = append(s.Doc, " gomacro:SQL ADD CHECK (Id >= 0)")
			g.c.AddFeat("sql:directive-text-shared-by-tables")
		}
		if len(cols) > 1 && g.chance(0.3) {
			s.Doc = append(s.Doc, fmt.Sprintf(" gomacro:SQL ADD UNIQUE(%s, %s)", cols[0], cols[1]))
			g.c.AddFeat("sql:uniques")
		}
		if len(cols) > 0 && g.chance(0.3) {
			s.Doc = append(s.Doc, fmt.Sprintf(" gomacro:SQL _SELECT KEY (%s)", pick(g.rng, cols)))
			g.c.AddFeat("sql:select-key")
		}
		if len(cols) > 0 && g.chance(0.3) {
			c1, c2 := pick(g.rng, cols), pick(g.rng, cols)
			switch g.rng.Intn(3) {
			case 0:
				s.Doc = append(s.Doc, fmt.Sprintf(" gomacro:QUERY Query%s UPDATE %s SET %s = $v$ WHERE %s = $w$ OR %s = $v$;", s.Name, s.Name, c1, c2, c1))
			case 1: // a variable used again outside an equality, a new variable after a repetition
				s.Doc = append(s.Doc, fmt.Sprintf(" gomacro:QUERY Query%s UPDATE %s SET %s = $v$ WHERE (%s = $w$ OR %s = $w$) AND %s = $x$ AND %s <> $v$;", s.Name, s.Name, c1, c2, c2, c1, c1))
			default:
				s.Doc = append(s.Doc, fmt.Sprintf(" gomacro:QUERY Query%s DELETE FROM %s WHERE %s = $a$ AND %s < $a$;", s.Name, s.Name, c1, c1))
			}
			g.c.AddFeat("sql:query")
		}
		if i > 0 && g.chance(0.2) {
			other := g.structs[g.rng.Intn(i)]
			s.Doc = append(s.Doc, fmt.Sprintf(" gomacro:SQL CREATE INDEX ON %s (x); -- %ss and My%s untouched, REFERENCES %s", s.Name, s.Name, s.Name, other.Name))
			g.c.AddFeat("sql:free-statement")
		}
	}
}
