package synth

import (
	"fmt"
	"math/rand"
	"strings"
)

// Options tune the feature mix of the random program generator.
type Options struct {
	Structs, Enums, Nameds, Unions int // upper bounds (drawn 0..n / 1..n)
	SQL          bool // table-like structs: id fields, foreign keys, sql tags and comment directives
	Unsupported  bool // also draw forms gomacro refuses (pointers, chans, funcs, anonymous structs, ...)
	Risky        bool // legal-but-unusual spellings known to be delicate (one-letter names, multi-name const specs, short package names, []byte, zero-length arrays, generics over basics)
	NoRecursion  bool // never build recursive types (needed when generated rand functions are executed)
	NoTagNoise   bool // only plain json tags
}

func DefaultOptions() Options { return Options{Structs: 5, Enums: 3, Nameds: 4, Unions: 2} }

type gen struct {
	sharedDeclared bool
	rng  *rand.Rand
	opt  Options
	c    *Case
	main []*Decl // declarations of the analysed file
	other []*Decl // declarations of the sibling file
	n    int     // global counter for unique field / key names

	scalars  []string
	enums    []*Decl
	nameds   []*Decl // named basics (incl. id types)
	structs  []*Decl
	unions   []*Decl
	lists    []*Decl // named containers
	subTypes []string
	hasSub   bool
	usedDashKey bool
}

var allScalars = []string{"int", "int64", "string", "bool", "float64", "int32", "uint8", "int16", "uint16", "uint", "float32", "byte", "rune", "int8", "uint32", "uint64"}

func (g *gen) uniq(prefix string) string { g.n++; return fmt.Sprintf("%s%d", prefix, g.n) }

func (g *gen) chance(p float64) bool { return g.rng.Float64() < p }

// promotes: does the struct named st have (directly or through its own embedded structs) a field named n
func (g *gen) promotes(st, n string, depth int) bool {
	if depth > 6 {
		return false
	}
	for _, sd := range g.structs {
		if sd.Name != st {
			continue
		}
		for _, f := range sd.Fields {
			if f.Name == n {
				return true
			}
			if f.Embedded && g.promotes(f.Name, n, depth+1) {
				return true
			}
		}
	}
	return false
}

// key types acceptable to encoding/json
func (g *gen) keyType() *TE {
	switch g.rng.Intn(6) {
	case 0:
		return Basic("int")
	case 1:
		if len(g.enums) > 0 {
			e := pick(g.rng, g.enums)
			if e.EnumUnder != "bool" && e.EnumUnder != "float64" {
				return Ref("", e.Name)
			}
		}
	case 2:
		for _, n := range g.nameds {
			if n.Under.K == "basic" && (n.Under.B == "string" || strings.HasPrefix(n.Under.B, "int")) {
				return Ref("", n.Name)
			}
		}
	case 3:
		return Basic("int64")
	}
	return Basic("string")
}

func (g *gen) scalar() *TE { return Basic(pick(g.rng, g.scalars)) }

// leaf: scalar, time or a reference to a declared type
func (g *gen) leaf(allowUnion bool, self *Decl) *TE {
	for tries := 0; tries < 4; tries++ {
		switch g.rng.Intn(12) {
		case 0, 1, 2, 3:
			return g.scalar()
		case 4:
			g.c.AddFeat("time")
			return Time()
		case 5:
			if len(g.enums) > 0 {
				return Ref("", pick(g.rng, g.enums).Name)
			}
		case 6:
			if len(g.nameds) > 0 {
				return Ref("", pick(g.rng, g.nameds).Name)
			}
		case 7, 8:
			if len(g.structs) > 0 {
				s := pick(g.rng, g.structs)
				if s != self {
					return Ref("", s.Name)
				}
			}
		case 9:
			if allowUnion && len(g.unions) > 0 {
				g.c.AddFeat("union-field")
				return Ref("", pick(g.rng, g.unions).Name)
			}
		case 10:
			if len(g.lists) > 0 {
				return Ref("", pick(g.rng, g.lists).Name)
			}
		case 11:
			if g.hasSub && len(g.subTypes) > 0 {
				name := pick(g.rng, g.subTypes)
				if name == "SubU" && !allowUnion {
					continue // anonymous containers of unions are refused by gounions
				}
				g.c.AddFeat("subpackage-type")
				return Ref("sub", name)
			}
		}
	}
	return g.scalar()
}

// typ draws a field type; unions appear only bare (anonymous containers of unions are refused by gounions).
func (g *gen) typ(depth int, self *Decl) *TE {
	if depth <= 0 {
		return g.leaf(true, self)
	}
	switch g.rng.Intn(10) {
	case 0, 1:
		g.c.AddFeat("slice")
		if g.opt.Risky && g.chance(0.15) {
			g.c.AddFeat("bytes")
			return Slice(Basic("byte"))
		}
		return Slice(g.elem(depth-1, self))
	case 2:
		g.c.AddFeat("map")
		return Map(g.keyType(), g.elem(depth-1, self))
	case 3:
		g.c.AddFeat("array")
		n := 1 + g.rng.Intn(4)
		if g.opt.Risky && g.chance(0.2) {
			n = 0
			g.c.AddFeat("array0")
		}
		// fixed byte arrays: encoding/json writes them as arrays of numbers (unlike byte slices)
		if n > 0 && g.chance(0.15) {
			g.c.AddFeat("byte-array")
			return Array(n, Basic(pick(g.rng, []string{"byte", "uint8"})))
		}
		// fixed arrays of slices/maps are refused by the typescript generator: keep elements flat
		return Array(n, g.leaf(false, self))
	}
	return g.leaf(true, self)
}

func (g *gen) elem(depth int, self *Decl) *TE {
	if depth > 0 && g.chance(0.3) {
		t := g.typ(depth, self)
		if t.K == "ref" && (g.isUnion(t.Name) || t.Name == "SubU") {
			return g.leaf(false, self)
		}
		return t
	}
	// recursion through a container
	if !g.opt.NoRecursion && self != nil && g.chance(0.12) {
		g.c.AddFeat("recursive")
		return Ref("", self.Name)
	}
	return g.leaf(false, self)
}

func (g *gen) isUnion(name string) bool {
	for _, u := range g.unions {
		if u.Name == name {
			return true
		}
	}
	return false
}

var tagForms = []string{
	`json:"%s"`, `json:"%s"`, `json:"%s,omitempty"`, `json:",omitempty"`, `json:"-"`, `json:"-,"`,
	`gomacro:"ignore"`, `xml:"x%s" json:"%s"`, `json:"%s" xml:"x"`, `gomacro-opaque:"typescript"`,
	`gomacro-opaque:"dart"`, `gomacro-data:"ignore"`, `json:"%s,string"`, `yaml:"%s"`,
}

func (g *gen) tag() string {
	if g.chance(0.55) {
		return ""
	}
	key := g.uniq("k")
	if g.opt.NoTagNoise {
		return fmt.Sprintf(`json:"%s"`, key)
	}
	f := pick(g.rng, tagForms)
	if f == `json:"-,"` {
		// the key "-" can be used once per program only (two equal keys in one struct hide each other)
		if g.usedDashKey {
			f = `json:"%s"`
		}
		g.usedDashKey = true
	}
	g.c.AddFeat("tag:" + strings.SplitN(strings.ReplaceAll(f, "%s", "K"), " ", 2)[0])
	n := strings.Count(f, "%s")
	args := make([]any, n)
	for i := range args {
		args[i] = key
	}
	return fmt.Sprintf(f, args...)
}

func (g *gen) mkEnum(i int) *Decl {
	name := fmt.Sprintf("E%d", i)
	if g.opt.Risky && g.chance(0.1) {
		name = string(rune('P' + i)) // one-letter enum name
	}
	d := &Decl{Kind: "enum", Name: name}
	style := g.rng.Intn(8)
	n := 1 + g.rng.Intn(4)
	cname := func(k int, exported bool) string {
		base := fmt.Sprintf("%sC%d", name, k)
		if !exported {
			base = "c" + base
		}
		return base
	}
	exportedAt := func(k int) bool { return !g.chance(0.2) }
	switch style {
	case 0, 1: // plain iota block
		d.EnumUnder = pick(g.rng, []string{"int", "uint8", "int16", "uint", "int64"})
		g.c.AddFeat("enum:iota")
		for k := 0; k < n; k++ {
			c := Const{Name: cname(k, exportedAt(k)), Typed: true}
			if k == 0 {
				c.Expr = "iota"
				if g.chance(0.15) {
					c.Expr = "iota + 1"
					g.c.AddFeat("enum:iota+1")
				}
			}
			if g.chance(0.1) && k > 0 {
				c.Name = "_"
				g.c.AddFeat("enum:blank")
			}
			d.Consts = append(d.Consts, c)
		}
	case 2, 3: // explicit ints: gaps, negatives, duplicates, any order
		d.EnumUnder = pick(g.rng, []string{"int", "int8", "int32", "int"})
		g.c.AddFeat("enum:explicit")
		vals := []int{0, 1, 2, 3, 5, -1, 0, 1, 2, 7}
		for k := 0; k < n; k++ {
			v := pick(g.rng, vals)
			if v < 0 {
				g.c.AddFeat("enum:negative")
			}
			d.Consts = append(d.Consts, Const{Name: cname(k, exportedAt(k)), Typed: true, Expr: fmt.Sprint(v)})
		}
	case 4, 5: // strings
		d.EnumUnder = "string"
		g.c.AddFeat("enum:string")
		for k := 0; k < n; k++ {
			v := pick(g.rng, []string{"a", "bb", "c c", "d-d", "é", "", "x_y"})
			d.Consts = append(d.Consts, Const{Name: cname(k, exportedAt(k)), Typed: true, Expr: fmt.Sprintf("%q", v+fmt.Sprint(k))})
		}
	case 6: // explicit 0..n-1 in shuffled order (iota-like without iota)
		d.EnumUnder = "int"
		g.c.AddFeat("enum:shuffled")
		perm := g.rng.Perm(n)
		for k := 0; k < n; k++ {
			d.Consts = append(d.Consts, Const{Name: cname(k, exportedAt(k)), Typed: true, Expr: fmt.Sprint(perm[k])})
		}
	case 7: // bool / float backed
		d.EnumUnder = pick(g.rng, []string{"uint8", "int", "float64", "bool"})
		g.c.AddFeat("enum:" + d.EnumUnder + "-backed")
		for k := 0; k < n; k++ {
			expr := fmt.Sprint(k)
			if d.EnumUnder == "bool" {
				expr = fmt.Sprint(k%2 == 0)
			} else if d.EnumUnder == "float64" {
				expr = fmt.Sprintf("%d.5", k)
			}
			d.Consts = append(d.Consts, Const{Name: cname(k, exportedAt(k)), Typed: true, Expr: expr})
		}
	}
	d.SingleLine = style >= 2 && g.chance(0.25)
	if d.SingleLine {
		g.c.AddFeat("enum:single-line")
	}
	for k := range d.Consts {
		if g.chance(0.3) {
			d.Consts[k].Comment = pick(g.rng, []string{"label " + d.Consts[k].Name, "with \"quote\"", "é accent", "x"})
		}
		if g.chance(0.08) {
			d.Consts[k].Comment = "gomacro:no-enum"
			g.c.AddFeat("enum:opt-out")
		}
	}
	if g.chance(0.05) { // every constant opted out: not an enum at all
		for k := range d.Consts {
			d.Consts[k].Comment = "gomacro:no-enum"
		}
		g.c.AddFeat("enum:all-opt-out")
	}
	if g.opt.Risky && style >= 2 && !d.SingleLine && len(d.Consts) >= 2 && g.chance(0.2) {
		// multi-name spec `A, B E = 1, 2`
		a, b := d.Consts[0], d.Consts[1]
		a.Names2, a.Expr2 = b.Name, b.Expr
		d.Consts = append([]Const{a}, d.Consts[2:]...)
		g.c.AddFeat("enum:multi-name-spec")
	}
	return d
}

func (g *gen) mkNamed(i int) *Decl {
	switch g.rng.Intn(6) {
	case 0:
		g.c.AddFeat("id-type")
		return &Decl{Kind: "named", Name: fmt.Sprintf("IdT%d", i), Under: Basic("int64")}
	case 1:
		g.c.AddFeat("id-type")
		return &Decl{Kind: "named", Name: fmt.Sprintf("T%dID", i), Under: Basic("int64")}
	case 2:
		g.c.AddFeat("named-date")
		return &Decl{Kind: "named", Name: fmt.Sprintf("MyDate%d", i), Under: Time(), TimeMethods: true}
	case 3:
		g.c.AddFeat("named-time")
		return &Decl{Kind: "named", Name: fmt.Sprintf("Tm%d", i), Under: Time(), TimeMethods: true}
	}
	return &Decl{Kind: "named", Name: fmt.Sprintf("Nb%d", i), Under: g.scalar(), Grouped: g.chance(0.15)}
}

func (g *gen) mkStruct(i int) *Decl {
	d := &Decl{Kind: "struct", Name: fmt.Sprintf("S%d", i)}
	if !g.opt.SQL && g.chance(0.12) {
		// an unexported struct type (mixins, private union members)
		d.Name = fmt.Sprintf("ls%d", i)
		g.c.AddFeat("unexported-struct-type")
	}
	if g.opt.Risky && g.chance(0.08) {
		d.Name = string(rune('A' + i))
		g.c.AddFeat("one-letter-struct")
	}
	nf := g.rng.Intn(6)
	if g.chance(0.05) {
		nf = 0
		g.c.AddFeat("empty-struct")
	}
	for j := 0; j < nf; j++ {
		f := Field{Name: g.uniq("F"), T: g.typ(2, d), Tag: g.tag()}
		if g.chance(0.1) {
			f.Name = strings.ToLower(f.Name[:1]) + f.Name[1:]
			g.c.AddFeat("unexported-field")
		}
		d.Fields = append(d.Fields, f)
	}
	if len(g.structs) > 0 && g.chance(0.12) {
		emb := pick(g.rng, g.structs)
		g.c.AddFeat("embedded-struct")
		ef := Field{Name: emb.Name, T: Ref("", emb.Name), Embedded: true}
		// a tag on the embedded struct: without a name its fields are still promoted, with a name
		// (or "-") it is a regular field
		if g.chance(0.5) {
			tags := []string{`json:",omitempty"`, `json:",inline"`, `json:""`, `gomacro-data:"ignore"`}
			// a NAME on an embedded struct of an unexported type is a recorded finding (C09: encoding/json
			// writes the key, the analysis drops the unexported field): only exported types get one
			if emb.Name[0] >= 'A' && emb.Name[0] <= 'Z' {
				tags = append(tags, `json:"emb_`+strings.ToLower(emb.Name)+`"`, `json:"-"`, `json:"emb_`+strings.ToLower(emb.Name)+`,omitempty"`)
			}
			ef.Tag = pick(g.rng, tags)
			g.c.AddFeat("embedded-struct-tagged")
		}
		d.Fields = append(d.Fields, ef)
	}
	// an embedded field that is not a struct stays an ordinary field named after its type
	if !g.opt.SQL && g.chance(0.1) {
		var cands []string
		for _, e := range g.enums {
			cands = append(cands, e.Name)
		}
		for _, n := range g.nameds {
			if n.Under.K == "basic" {
				cands = append(cands, n.Name)
			}
		}
		if len(cands) > 0 {
			n := pick(g.rng, cands)
			dup := false
			for _, f := range d.Fields {
				if f.Name == n {
					dup = true
				}
				// a name promoted from an embedded struct would be hidden by (or hide) the new
				// field: encoding/json's dominance rule is outside the conflict-free case
				if f.Embedded && g.promotes(f.Name, n, 0) {
					dup = true
				}
			}
			if !dup {
				g.c.AddFeat("embedded-non-struct")
				d.Fields = append(d.Fields, Field{Name: n, T: Ref("", n), Embedded: true})
			}
		}
	}
	if g.hasSub && g.chance(0.05) {
		// not twice along two embedding paths (the deeper copy is hidden from encoding/json: its
		// values do not survive a round trip whatever gomacro does)
		dup := false
		for _, f := range d.Fields {
			if f.Name == "SubStruct" || f.Embedded && g.promotes(f.Name, "SubStruct", 0) {
				dup = true
			}
		}
		if !dup {
			g.c.AddFeat("embedded-sub-struct")
			d.Fields = append(d.Fields, Field{Name: "SubStruct", T: Ref("sub", "SubStruct"), Embedded: true})
		}
	}
	if g.chance(0.1) {
		g.c.AddFeat("generic-named-arg")
		arg := Basic("int")
		if len(g.nameds) > 0 && !g.opt.Risky || g.chance(0.7) && len(g.nameds) > 0 {
			arg = Ref("", pick(g.rng, g.nameds).Name)
		} else if !g.opt.Risky {
			arg = nil
		} else {
			g.c.AddFeat("generic-basic-arg")
		}
		if arg != nil {
			d.Fields = append(d.Fields, Field{Name: g.uniq("G"), T: Generic("Gen", arg)})
		}
	}
	if g.chance(0.1) {
		g.c.AddFeat("sql-null")
		d.Fields = append(d.Fields, Field{Name: g.uniq("N"), T: Raw(pick(g.rng, []string{"sql.NullInt64", "sql.NullString", "sql.NullBool", "sql.NullTime", "sql.NullFloat64"}))})
	}
	if g.chance(0.12) {
		d.Grouped = true
		g.c.AddFeat("grouped-type-decl")
	}
	if g.chance(0.2) {
		d.Doc = append(d.Doc, " "+d.Name+" is documented")
	}
	return d
}

func (g *gen) mkUnion(i int) *Decl {
	d := &Decl{Kind: "union", Name: fmt.Sprintf("U%d", i), NMethods: 1, PtrRecv: map[string]bool{}}
	if g.opt.Risky && g.chance(0.15) {
		d.Name = string(rune('U' + i)) // one-letter union
		g.c.AddFeat("one-letter-union")
	}
	if g.chance(0.2) {
		d.NMethods = 2
	}
	var pool []string
	for _, s := range g.structs {
		pool = append(pool, s.Name)
	}
	for _, n := range g.nameds {
		if n.Under.K == "basic" {
			pool = append(pool, n.Name)
		}
	}
	// named slices / maps as members (their nil value is a member value too)
	if g.chance(0.3) {
		name := g.uniq("Lm")
		under := Slice(Basic("string"))
		if g.chance(0.4) {
			under = Map(Basic("string"), Basic("int"))
		}
		g.lists = append(g.lists, &Decl{Kind: "named", Name: name, Under: under})
		pool = append(pool, name, name)
		g.c.AddFeat("union-member-named-container")
	}
	if len(pool) == 0 {
		return nil
	}
	k := 1 + g.rng.Intn(3)
	seen := map[string]bool{}
	for j := 0; j < k; j++ {
		m := pick(g.rng, pool)
		if !seen[m] {
			seen[m] = true
			d.Members = append(d.Members, m)
		}
	}
	return d
}

// Generate draws one case.
func Generate(rng *rand.Rand, id string, opt Options) *Case {
	g := &gen{rng: rng, opt: opt, c: &Case{ID: id}}
	g.scalars = allScalars[:5]
	if rng.Intn(2) == 0 {
		g.scalars = allScalars
	}
	c := g.c
	c.Main = &Pkg{Name: "p" + id, Imports: map[string]string{}}

	// sub package
	g.hasSub = rng.Intn(3) != 0
	if g.hasSub {
		sub := &Pkg{Dir: "sub", Name: "sub"}
		sf := &File{Name: "sub.go"}
		sf.Decls = append(sf.Decls,
			&Decl{Kind: "struct", Name: "SubStruct", Fields: []Field{{Name: "X", T: Basic("int")}, {Name: "Y", T: Basic("string"), Tag: `json:"y"`}}, Doc: []string{" gomacro:SQL ADD UNIQUE(X)"}},
			&Decl{Kind: "enum", Name: "SubEnum", EnumUnder: "uint8", Consts: []Const{{Name: "SubA", Expr: "iota", Typed: true}, {Name: "SubB", Typed: true, Comment: "second"}}},
			&Decl{Kind: "named", Name: "SubNamed", Under: Slice(Basic("int"))},
			&Decl{Kind: "named", Name: "SubID", Under: Basic("int64")},
		)
		g.subTypes = []string{"SubStruct", "SubEnum", "SubNamed", "SubID"}
		if rng.Intn(2) == 0 {
			sf.Decls = append(sf.Decls,
				&Decl{Kind: "struct", Name: "SubM1", Fields: []Field{{Name: "A", T: Basic("int")}}},
				&Decl{Kind: "struct", Name: "SubM2", Fields: []Field{{Name: "B", T: Basic("string")}}},
				&Decl{Kind: "union", Name: "SubU", NMethods: 1, Members: []string{"SubM1", "SubM2"}, PtrRecv: map[string]bool{}},
				// same enum name as a main-package enum may exist: E0
				&Decl{Kind: "enum", Name: "E0", EnumUnder: "int", Consts: []Const{{Name: "SubE0A", Expr: "iota", Typed: true}, {Name: "SubE0B", Typed: true}}},
			)
			g.subTypes = append(g.subTypes, "SubU", "E0")
			c.AddFeat("sub-union")
		}
		sub.Files = []*File{sf}
		c.Subs = append(c.Subs, sub)
		c.Main.Imports["sub"] = c.PkgPath(sub)
	}

	for i, n := 0, rng.Intn(opt.Enums+1); i < n; i++ {
		g.enums = append(g.enums, g.mkEnum(i))
	}
	for i, n := 0, rng.Intn(opt.Nameds+1); i < n; i++ {
		g.nameds = append(g.nameds, g.mkNamed(i))
	}
	nStructs := 1 + rng.Intn(opt.Structs)
	nUnions := rng.Intn(opt.Unions + 1)
	// first half of the structs, then unions over them, then named containers, then the rest
	for i := 0; i < (nStructs+1)/2; i++ {
		g.structs = append(g.structs, g.mkStruct(i))
	}
	for i := 0; i < nUnions; i++ {
		if u := g.mkUnion(i); u != nil {
			g.unions = append(g.unions, u)
			c.AddFeat("union")
		}
	}
	// named containers (of unions too: gounions wraps these element-wise)
	for i, n := 0, rng.Intn(3); i < n; i++ {
		var el *TE
		if len(g.unions) > 0 && g.chance(0.5) {
			el = Ref("", pick(rng, g.unions).Name)
			c.AddFeat("named-container-of-union")
		} else {
			el = g.leaf(false, nil)
		}
		d := &Decl{Kind: "named", Name: fmt.Sprintf("L%d", i)}
		switch rng.Intn(3) {
		case 0:
			d.Under = Map(pick(rng, []*TE{Basic("string"), Basic("int")}), el)
			d.Name = fmt.Sprintf("M%d", i)
		case 1:
			if !g.isUnion(el.Name) {
				d.Under = Array(1+rng.Intn(3), el)
				d.Name = fmt.Sprintf("Ar%d", i)
				break
			}
			fallthrough
		default:
			d.Under = Slice(el)
		}
		g.lists = append(g.lists, d)
	}
	for i := (nStructs + 1) / 2; i < nStructs; i++ {
		g.structs = append(g.structs, g.mkStruct(i))
	}
	if opt.Unsupported {
		g.addUnsupported()
	}
	if opt.SQL {
		g.addSQL()
	}

	// distribute: most declarations in the analysed file, a few in the sibling file
	var all []*Decl
	all = append(all, g.enums...)
	all = append(all, g.nameds...)
	all = append(all, g.structs...)
	all = append(all, g.unions...)
	all = append(all, g.lists...)
	rng.Shuffle(len(all), func(i, j int) { all[i], all[j] = all[j], all[i] })
	for _, d := range all {
		if g.chance(0.15) && d.Kind != "union" {
			g.other = append(g.other, d)
		} else {
			g.main = append(g.main, d)
		}
	}
	if len(g.main) == 0 {
		g.main, g.other = g.other, nil
	}
	g.other = append(g.other, &Decl{Kind: "raw", Name: "Gen", Text: "type Gen[T any] struct {\n\tV  T\n\tOk bool\n}\n"})
	if rng.Intn(4) == 0 && len(g.structs) > 0 {
		// alias declared after everything else (node identity through aliases)
		s := pick(rng, g.structs)
		g.main = append(g.main, &Decl{Kind: "alias", Name: "Al" + s.Name, Under: Ref("", s.Name)})
		c.AddFeat("alias")
	}
	c.Main.Files = []*File{{Name: "defs.go", Decls: g.main}, {Name: "other.go", Decls: g.other}}
	return c
}

func (g *gen) addUnsupported() {
	forms := []string{"*int", "chan int", "func()", "struct{ A int }", "complex128", "interface{}", "error", "[]*int", "map[string]*int", "uintptr"}
	if len(g.unions) > 0 {
		u := g.unions[0].Name
		forms = append(forms, "[]"+u, "map[string]"+u)
	}
	if len(g.structs) == 0 {
		return
	}
	s := pick(g.rng, g.structs)
	f := pick(g.rng, forms)
	g.c.AddFeat("unsupported:" + strings.SplitN(f, "{", 2)[0])
	s.Fields = append(s.Fields, Field{Name: g.uniq("X"), T: Raw(f)})
}

// addSQL turns the structs into table-like structs (see sql.go)
func (g *gen) addSQL() { addSQLFeatures(g) }
