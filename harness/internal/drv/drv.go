// Package drv talks to the Lean model driver over a JSON-lines pipe.
package drv

import (
	"bufio"
	"encoding/json"
	"fmt"
	"io"
	"os"
	"os/exec"
)

type Driver struct {
	cmd *exec.Cmd
	in  io.WriteCloser
	out *bufio.Reader
	N   int
}

// Start launches the driver binary given by VERIF_DRIVER (default /verif/lean/.lake/build/bin/driver).
func Start() (*Driver, error) {
	bin := os.Getenv("VERIF_DRIVER")
	if bin == "" {
		bin = "/verif/lean/.lake/build/bin/driver"
	}
	cmd := exec.Command(bin)
	in, err := cmd.StdinPipe()
	if err != nil {
		return nil, err
	}
	out, err := cmd.StdoutPipe()
	if err != nil {
		return nil, err
	}
	cmd.Stderr = os.Stderr
	if err := cmd.Start(); err != nil {
		return nil, err
	}
	return &Driver{cmd: cmd, in: in, out: bufio.NewReaderSize(out, 1<<20)}, nil
}

// Call sends one request and reads one reply.
func (d *Driver) Call(req any) (map[string]any, error) {
	b, err := json.Marshal(req)
	if err != nil {
		return nil, err
	}
	b = append(b, '\n')
	if _, err := d.in.Write(b); err != nil {
		return nil, err
	}
	line, err := d.out.ReadBytes('\n')
	if err != nil {
		return nil, fmt.Errorf("driver read: %w", err)
	}
	d.N++
	var m map[string]any
	dec := json.NewDecoder(bytesReader(line))
	dec.UseNumber()
	if err := dec.Decode(&m); err != nil {
		return nil, fmt.Errorf("driver reply %q: %w", line, err)
	}
	if e, ok := m["error"]; ok {
		return m, fmt.Errorf("driver error: %v", e)
	}
	return m, nil
}

func (d *Driver) Close() {
	d.in.Close()
	d.cmd.Wait()
}

type br struct {
	b []byte
	i int
}

func (r *br) Read(p []byte) (int, error) {
	if r.i >= len(r.b) {
		return 0, io.EOF
	}
	n := copy(p, r.b[r.i:])
	r.i += n
	return n, nil
}
func bytesReader(b []byte) io.Reader { return &br{b: b} }
