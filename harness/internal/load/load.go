// Package load renders synthesised cases to a scratch module and loads them with go/packages.
package load

import (
	"fmt"
	"os"
	"path/filepath"

	"golang.org/x/tools/go/packages"

	"verifharness/internal/synth"
)

type Loaded struct {
	Dir   string
	Mod   *synth.Module
	Pkgs  map[string]*packages.Package // case id -> package containing its analysed file
	Bad   map[string]string            // case id -> type errors (synthesiser produced an ill-typed program)
}

const Mode = packages.NeedName | packages.NeedFiles | packages.NeedSyntax |
	packages.NeedTypes | packages.NeedImports | packages.NeedDeps | packages.NeedTypesInfo

// Cases writes the cases below a fresh temp dir and loads all of them with one packages.Load.
func Cases(cases []*synth.Case) (*Loaded, error) {
	dir, err := os.MkdirTemp("", "vh-synth-")
	if err != nil {
		return nil, err
	}
	dir, _ = filepath.EvalSymlinks(dir)
	mod, err := synth.Write(dir, cases)
	if err != nil {
		return nil, err
	}
	return loadFrom(dir, mod, cases)
}

// Reload loads the same scratch module again in this process: fresh packages, fresh types.Named
// pointers and a fresh FileSet (whose bases follow the schedule of the parser goroutines), the same
// package paths. The result shares the directory of l: close l only.
func (l *Loaded) Reload(cases []*synth.Case) (*Loaded, error) { return loadFrom(l.Dir, l.Mod, cases) }

func loadFrom(dir string, mod *synth.Module, cases []*synth.Case) (*Loaded, error) {
	out := &Loaded{Dir: dir, Mod: mod, Pkgs: map[string]*packages.Package{}, Bad: map[string]string{}}
	patterns := make([]string, len(cases))
	for i, c := range cases {
		patterns[i] = "file=" + mod.MainFile(c)
	}
	cfg := &packages.Config{Dir: mod.Root, Mode: Mode}
	pkgs, err := packages.Load(cfg, patterns...)
	if err != nil {
		return nil, err
	}
	byFile := map[string]*packages.Package{}
	for _, p := range pkgs {
		for _, f := range p.GoFiles {
			byFile[f] = p
		}
	}
	for _, c := range cases {
		p := byFile[mod.MainFile(c)]
		if p == nil {
			out.Bad[c.ID] = "package not found"
			continue
		}
		var errs string
		packages.Visit([]*packages.Package{p}, nil, func(q *packages.Package) {
			for _, e := range q.Errors {
				errs += e.Error() + "\n"
			}
		})
		if errs != "" {
			out.Bad[c.ID] = errs
			continue
		}
		out.Pkgs[c.ID] = p
	}
	return out, nil
}

func (l *Loaded) Close() { os.RemoveAll(l.Dir) }

func (l *Loaded) String() string { return fmt.Sprintf("%d loaded, %d ill-typed", len(l.Pkgs), len(l.Bad)) }
