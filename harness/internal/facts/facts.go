// Package facts is an independent go/types walker: it reports what the Go type checker says
// about a package (L1 fact base), without calling any gomacro code.
package facts

import (
	"go/ast"
	"go/constant"
	"go/token"
	"go/types"
	"sort"
	"strings"

	"golang.org/x/tools/go/packages"
)

type GoTy struct {
	K        string    `json:"k"` // basic | array | slice | map | ptr | struct | iface | chan | func | named | tparam | other
	B        string    `json:"b,omitempty"`
	Info     string    `json:"info,omitempty"` // bool | int | float | string | complex | other   (basic only)
	N        int64     `json:"n,omitempty"`
	E        *GoTy     `json:"e,omitempty"`
	Key      *GoTy     `json:"key,omitempty"`
	Q        string    `json:"q,omitempty"` // named: type string
	Fields   []GoField `json:"fields,omitempty"`
	NMethods int       `json:"nMethods,omitempty"`
}

type GoField struct {
	Name     string `json:"name"`
	T        *GoTy  `json:"t"`
	Tag      string `json:"tag"`
	Exported bool   `json:"exported"`
	Embedded bool   `json:"embedded"`
}

type TArg struct {
	Named bool   `json:"named"`
	Name  string `json:"name"`
	Q     string `json:"q"`
}

type TypeFact struct {
	Q        string   `json:"q"`
	Name     string   `json:"name"`
	PkgPath  string   `json:"pkgPath"`
	PkgName  string   `json:"pkgName"`
	Exported bool     `json:"exported"`
	Under    *GoTy    `json:"under"`
	UnderStr string   `json:"underStr"` // typ.Underlying().String()
	IsIface  bool     `json:"isIface"`
	TArgs    []TArg   `json:"targs"`
	HasTParams bool   `json:"hasTParams"`
	// syntax facts, by direct iteration over the declarations (never by position lookup)
	Doc     []string `json:"doc"`     // lines of the doc comment attached to this type's own declaration
	Grouped bool     `json:"grouped"` // declared inside a parenthesised `type ( ... )` group
	GroupDoc []string `json:"groupDoc"` // doc comment of the enclosing `type ( ... )` group (nil outside groups)
	InScope bool     `json:"inScope"` // declared at package level of a user package
}

type ConstFact struct {
	Name     string `json:"name"`
	TypeQ    string `json:"typeQ"` // "" if the constant's type is not a named type
	Val      string `json:"val"`
	ValStr   string `json:"valStr"`
	IsInt    bool   `json:"isInt"` // constant.Int64Val ok
	Int      int64  `json:"int"`
	Exported bool   `json:"exported"`
	Comment  string `json:"comment"` // trailing line comment of the ValueSpec, trimmed
	SpecIndex int   `json:"specIndex"`
	Str      string `json:"str"` // string value of a string constant // index of this name inside its ValueSpec (`A, B T = 1, 2`: B has 1)
}

type AliasFact struct {
	Name   string `json:"name"`
	Target *GoTy  `json:"target"`
}

type PkgFacts struct {
	Path    string      `json:"path"`
	Name    string      `json:"name"`
	Types   []string    `json:"types"`  // Q of the named (non-alias) types of the scope, in scope (name) order
	Consts  []ConstFact `json:"consts"` // scope order
	Aliases []AliasFact `json:"aliases"`
	Imports []string    `json:"imports"` // user-module imports only, sorted
	// Implements[i] = for Types[i] (non-interface), the Q of the interfaces of this package it implements
	Implements map[string][]string `json:"implements"`
}

type SourceDecl struct {
	Name    string `json:"name"`
	IsAlias bool   `json:"isAlias"`
	T       *GoTy  `json:"t"` // the declared type (named ref, or alias target)
}

type FactBase struct {
	RootPath   string               `json:"rootPath"`
	RootName   string               `json:"rootName"`
	Prefix     string               `json:"prefix"` // user module prefix (first two path elements)
	Pkgs       []PkgFacts           `json:"pkgs"`   // root first, then imports depth-first
	Types      map[string]*TypeFact `json:"types"`  // every named type reachable, by Q
	SourceFile string               `json:"sourceFile"`
	Source     []SourceDecl         `json:"source"` // type declarations of the analysed file, in source order
}

type walker struct {
	fb   *FactBase
	docs map[*types.TypeName]docInfo
}

type docInfo struct {
	doc      []string
	groupDoc []string
	grouped  bool
}

func basicInfo(b *types.Basic) string {
	i := b.Info()
	switch {
	case i&types.IsBoolean != 0:
		return "bool"
	case i&types.IsInteger != 0:
		return "int"
	case i&types.IsFloat != 0:
		return "float"
	case i&types.IsString != 0:
		return "string"
	case i&types.IsComplex != 0:
		return "complex"
	}
	return "other"
}

func (w *walker) ty(t types.Type) *GoTy {
	t = types.Unalias(t)
	switch t := t.(type) {
	case *types.Basic:
		return &GoTy{K: "basic", B: t.Name(), Info: basicInfo(t)}
	case *types.Array:
		return &GoTy{K: "array", N: t.Len(), E: w.ty(t.Elem())}
	case *types.Slice:
		return &GoTy{K: "slice", E: w.ty(t.Elem())}
	case *types.Map:
		return &GoTy{K: "map", Key: w.ty(t.Key()), E: w.ty(t.Elem())}
	case *types.Pointer:
		return &GoTy{K: "ptr", E: w.ty(t.Elem())}
	case *types.Struct:
		out := &GoTy{K: "struct", Fields: []GoField{}}
		for i := 0; i < t.NumFields(); i++ {
			f := t.Field(i)
			out.Fields = append(out.Fields, GoField{Name: f.Name(), T: w.ty(f.Type()), Tag: t.Tag(i), Exported: f.Exported(), Embedded: f.Embedded()})
		}
		return out
	case *types.Interface:
		return &GoTy{K: "iface", NMethods: t.NumMethods()}
	case *types.Chan:
		return &GoTy{K: "chan"}
	case *types.Signature:
		return &GoTy{K: "func"}
	case *types.TypeParam:
		return &GoTy{K: "tparam", B: t.Obj().Name()}
	case *types.Named:
		q := types.TypeString(t, nil)
		w.named(q, t)
		return &GoTy{K: "named", Q: q}
	}
	return &GoTy{K: "other", B: t.String()}
}

func (w *walker) named(q string, t *types.Named) {
	if _, ok := w.fb.Types[q]; ok {
		return
	}
	tf := &TypeFact{Q: q, Name: t.Obj().Name(), Exported: t.Obj().Exported(), TArgs: []TArg{}, Doc: []string{}, GroupDoc: []string{}}
	w.fb.Types[q] = tf // register before recursing
	if p := t.Obj().Pkg(); p != nil {
		tf.PkgPath, tf.PkgName = p.Path(), p.Name()
	}
	tf.UnderStr = t.Underlying().String()
	_, tf.IsIface = t.Underlying().(*types.Interface)
	if ta := t.TypeArgs(); ta != nil {
		for i := 0; i < ta.Len(); i++ {
			a := types.Unalias(ta.At(i))
			if n, ok := a.(*types.Named); ok {
				tf.TArgs = append(tf.TArgs, TArg{Named: true, Name: n.Obj().Name(), Q: types.TypeString(n, nil)})
			} else {
				tf.TArgs = append(tf.TArgs, TArg{Named: false, Name: a.String(), Q: a.String()})
			}
		}
	}
	tf.HasTParams = t.TypeParams() != nil && t.TypeParams().Len() > 0 && (t.TypeArgs() == nil || t.TypeArgs().Len() == 0)
	// the doc of an instantiated generic is that of its origin
	if di, ok := w.docs[t.Origin().Obj()]; ok {
		tf.Doc, tf.Grouped, tf.InScope, tf.GroupDoc = di.doc, di.grouped, true, di.groupDoc
	}
	tf.Under = w.ty(t.Underlying())
}

func userPrefix(path string) string {
	chunks := strings.Split(path, "/")
	if len(chunks) == 1 {
		return path
	}
	return strings.Join(chunks[:2], "/")
}

func (w *walker) collectDocs(p *packages.Package) {
	for _, file := range p.Syntax {
		for _, decl := range file.Decls {
			gd, ok := decl.(*ast.GenDecl)
			if !ok || gd.Tok != token.TYPE {
				continue
			}
			grouped := gd.Lparen.IsValid()
			for _, spec := range gd.Specs {
				ts := spec.(*ast.TypeSpec)
				obj, _ := p.TypesInfo.Defs[ts.Name].(*types.TypeName)
				if obj == nil {
					continue
				}
				var cg *ast.CommentGroup
				if grouped {
					cg = ts.Doc // the comment right above this member of the group
				} else {
					cg = gd.Doc
				}
				di := docInfo{grouped: grouped, doc: []string{}, groupDoc: []string{}}
				if grouped && gd.Doc != nil {
					for _, c := range gd.Doc.List {
						di.groupDoc = append(di.groupDoc, c.Text)
					}
				}
				if cg != nil {
					for _, c := range cg.List {
						di.doc = append(di.doc, c.Text)
					}
				}
				w.docs[obj] = di
			}
		}
	}
}

func (w *walker) pkg(p *packages.Package, seen map[string]bool) {
	if seen[p.PkgPath] {
		return
	}
	seen[p.PkgPath] = true
	pf := PkgFacts{Path: p.PkgPath, Name: p.Name, Types: []string{}, Consts: []ConstFact{}, Aliases: []AliasFact{}, Imports: []string{}, Implements: map[string][]string{}}
	// trailing comments of constants, by direct iteration over value specs
	comments := map[types.Object]string{}
	specIndex := map[types.Object]int{}
	for _, file := range p.Syntax {
		for _, decl := range file.Decls {
			gd, ok := decl.(*ast.GenDecl)
			if !ok || gd.Tok != token.CONST {
				continue
			}
			for _, spec := range gd.Specs {
				vs := spec.(*ast.ValueSpec)
				for i, n := range vs.Names {
					if o := p.TypesInfo.Defs[n]; o != nil {
						specIndex[o] = i
						if vs.Comment != nil {
							comments[o] = strings.TrimSpace(vs.Comment.Text())
						}
					}
				}
			}
		}
	}
	scope := p.Types.Scope()
	var nameds []*types.Named
	for _, name := range scope.Names() {
		switch o := scope.Lookup(name).(type) {
		case *types.TypeName:
			if o.IsAlias() {
				pf.Aliases = append(pf.Aliases, AliasFact{Name: name, Target: w.ty(o.Type())})
				continue
			}
			if n, ok := o.Type().(*types.Named); ok {
				q := types.TypeString(n, nil)
				w.named(q, n)
				w.fb.Types[q].InScope = true
				pf.Types = append(pf.Types, q)
				nameds = append(nameds, n)
			}
		case *types.Const:
			cf := ConstFact{Name: name, Val: o.Val().ExactString(), ValStr: o.Val().String(), Exported: o.Exported(), Comment: comments[o], SpecIndex: specIndex[o]}
			if n, ok := o.Type().(*types.Named); ok {
				cf.TypeQ = types.TypeString(n, nil)
				w.named(cf.TypeQ, n)
			}
			if o.Val().Kind() == constant.Int {
				cf.Int, cf.IsInt = constant.Int64Val(o.Val())
			}
			if o.Val().Kind() == constant.String {
				cf.Str = constant.StringVal(o.Val())
			}
			pf.Consts = append(pf.Consts, cf)
		}
	}
	for _, n := range nameds {
		if _, isI := n.Underlying().(*types.Interface); isI {
			continue
		}
		impl := []string{}
		for _, i := range nameds {
			if itf, isI := i.Underlying().(*types.Interface); isI && types.Implements(n, itf) {
				impl = append(impl, types.TypeString(i, nil))
			}
		}
		pf.Implements[types.TypeString(n, nil)] = impl
	}
	var imps []*packages.Package
	for path, imp := range p.Imports {
		if strings.HasPrefix(path, w.fb.Prefix) {
			pf.Imports = append(pf.Imports, path)
			imps = append(imps, imp)
		}
	}
	sort.Strings(pf.Imports)
	sort.Slice(imps, func(i, j int) bool { return imps[i].PkgPath < imps[j].PkgPath })
	w.fb.Pkgs = append(w.fb.Pkgs, pf)
	for _, imp := range imps {
		w.pkg(imp, seen)
	}
}

// Walk builds the fact base of `root`, whose analysed file is `sourceFile` (absolute path).
func Walk(root *packages.Package, sourceFile string) *FactBase {
	fb := &FactBase{RootPath: root.PkgPath, RootName: root.Name, Prefix: userPrefix(root.PkgPath), Types: map[string]*TypeFact{}, SourceFile: sourceFile, Source: []SourceDecl{}, Pkgs: []PkgFacts{}}
	w := &walker{fb: fb, docs: map[*types.TypeName]docInfo{}}
	// syntax facts first, for every package of the user module reachable from the root
	packages.Visit([]*packages.Package{root}, func(p *packages.Package) bool {
		return strings.HasPrefix(p.PkgPath, fb.Prefix)
	}, func(p *packages.Package) {
		if strings.HasPrefix(p.PkgPath, fb.Prefix) {
			w.collectDocs(p)
		}
	})
	w.pkg(root, map[string]bool{})
	// type declarations of the analysed file, in source order, by direct AST iteration
	for _, file := range root.Syntax {
		if root.Fset.Position(file.Pos()).Filename != sourceFile {
			continue
		}
		for _, decl := range file.Decls {
			gd, ok := decl.(*ast.GenDecl)
			if !ok || gd.Tok != token.TYPE {
				continue
			}
			for _, spec := range gd.Specs {
				ts := spec.(*ast.TypeSpec)
				obj, _ := root.TypesInfo.Defs[ts.Name].(*types.TypeName)
				if obj == nil || ts.Name.Name == "_" {
					continue
				}
				fb.Source = append(fb.Source, SourceDecl{Name: ts.Name.Name, IsAlias: obj.IsAlias(), T: w.ty(obj.Type())})
			}
		}
	}
	return fb
}
