// Package routes synthesises Echo-style route files together with their route table (the oracle of
// C13 and the input of C14): registrations with verbs, path expressions and handlers whose bodies
// are written in the idiom analysis/httpapi reads.
package routes

import (
	"fmt"
	"math/rand"
	"sort"
	"strings"

	"verifharness/internal/synth"
)

// Item is one input of a handler's contract.
type Item struct {
	K    string `json:"k"` // bind | query | queryBool | queryInt64 | queryInt | formValue | formFile | formJSON
	Name string `json:"name,omitempty"`
	Ty   string `json:"ty,omitempty"` // qualified type string (as go/types prints it)
	Addr bool   `json:"addr,omitempty"`
	tmpl string // type template
}

type Stmt struct {
	Kind  string `json:"kind"` // assign | guarded | junk
	Items []Item `json:"items,omitempty"`
}

type Ret struct {
	K         string `json:"k"` // json | blob | plain
	Pretty    bool   `json:"pretty,omitempty"`
	Composite bool   `json:"composite,omitempty"`
	Ty        string `json:"ty,omitempty"`
	tmpl      string
}

type Handler struct {
	Name  string `json:"name"`
	Form  string `json:"form"` // method | valueMethod | localRecv | func | otherFileMethod | otherFileFunc | importedFunc | importedMethod | lit
	Stmts []Stmt `json:"stmts"`
	Ret   Ret    `json:"ret"`
	Inner bool   `json:"inner,omitempty"` // declared in the imported package
}

func (h *Handler) Items() []Item {
	var out []Item
	for _, s := range h.Stmts {
		out = append(out, s.Items...)
	}
	return out
}

type Route struct {
	Verb    string   `json:"verb"`
	URLExpr string   `json:"urlExpr"`
	URL     string   `json:"url"`
	Handler *Handler `json:"handler"`
}

type Table struct {
	Case     *synth.Case
	Routes   []*Route
	Prefixes []string
	MainPath string
}

type typ struct {
	tmpl      string // {M}. = main package, {I}. = inner package
	inner     bool   // usable inside the inner package
	composite bool   // a composite literal T{} is legal
}

var types = []typ{
	{"int", true, false}, {"string", true, false}, {"uint32", true, false}, {"[]int64", true, true},
	{"map[string][]int", true, true}, {"{M}.In0", false, true}, {"{M}.Out0", false, true}, {"[]{M}.In0", false, true},
	{"{I}.Data", true, true}, {"[]{I}.Data", true, true}, {"map[string]{I}.Data", true, true}, {"{M}.IdDossier", false, false},
	{"[3]string", true, true}, {"bool", true, false},
	// several instantiations of one generic struct
	{"{M}.Page[{M}.In0]", false, true}, {"{M}.Page[{M}.Out0]", false, true}, {"{M}.Page[int]", false, true},
}

type gen struct {
	taken     map[string]bool
	enumQuery bool
	rng       *rand.Rand
	id        string
	mainPath  string
	nvar      int
	nh        int
}

func (g *gen) chance(p float64) bool { return g.rng.Float64() < p }

func (g *gen) q(tmpl string) string {
	s := strings.ReplaceAll(tmpl, "{M}.", g.mainPath+".")
	return strings.ReplaceAll(s, "{I}.", g.mainPath+"/inner.")
}

// text renders the type as written in the main package or in the inner package
func text(tmpl string, inner bool) string {
	s := strings.ReplaceAll(tmpl, "{M}.", "")
	if inner {
		return strings.ReplaceAll(s, "{I}.", "")
	}
	return strings.ReplaceAll(s, "{I}.", "inner.")
}

func (g *gen) pickType(inner bool, composite bool) typ {
	for {
		t := types[g.rng.Intn(len(types))]
		if inner && !t.inner || composite && !t.composite {
			continue
		}
		return t
	}
}

var names = []string{"id", "my-bool", "page", "q", "file_2", "value_1", "json-field", "param-name", "x", "y", "z", "né", "a b", "with\"quote", "k1", "k2", "k3", "k4"}

// name2: a name new to the namespace `used` (query parameters and form values are two
// namespaces); one time in four, when there is one, a name the other namespace already has
func (g *gen) name2(used, other map[string]bool) string {
	if g.chance(0.25) {
		var cands []string
		for n := range other {
			if !used[n] {
				cands = append(cands, n)
			}
		}
		sort.Strings(cands)
		if len(cands) > 0 {
			n := cands[g.rng.Intn(len(cands))]
			used[n] = true
			return n
		}
	}
	return g.name(used)
}

func (g *gen) name(used map[string]bool) string {
	for {
		n := names[g.rng.Intn(len(names))]
		if g.chance(0.3) {
			n = fmt.Sprintf("%s%d", n, g.rng.Intn(9))
		}
		if !used[n] {
			used[n] = true
			return n
		}
	}
}

// namespace in which a handler's name must be unique
func nameSpace(form string) string {
	switch form {
	case "method", "otherFileMethod":
		return "controller"
	case "valueMethod", "localRecv":
		return "controllerV"
	case "func", "otherFileFunc":
		return "func"
	case "importedMethod":
		return "inner.Controller"
	case "importedFunc":
		return "inner.func"
	}
	return "lit"
}

func (g *gen) handler(form string) *Handler {
	h := &Handler{Form: form, Name: fmt.Sprintf("h%d", g.nh)}
	g.nh++
	// the same handler name on several receivers / as a function (List, Create … in real code)
	if g.chance(0.35) && form != "lit" {
		for _, n := range []string{"List", "Create", "Update"} {
			key := nameSpace(form) + "." + n
			if !g.taken[key] {
				g.taken[key] = true
				h.Name = n
				break
			}
		}
	}
	h.Inner = form == "importedFunc" || form == "importedMethod"
	used, usedForm := map[string]bool{}, map[string]bool{}
	n := g.rng.Intn(6)
	if g.chance(0.15) {
		n = 0
	}
	hasBind, hasFile, hasJSON := false, false, false
	for i := 0; i < n; i++ {
		var st Stmt
		switch k := g.rng.Intn(10); {
		case k == 0 && !hasBind:
			hasBind = true
			t := g.pickType(h.Inner, false)
			it := Item{K: "bind", Addr: g.chance(0.75), tmpl: t.tmpl}
			it.Ty = g.q(t.tmpl) // by address or through a pointer variable: the body is the value
			st = Stmt{Kind: pick(g.rng, []string{"assign", "guarded"}), Items: []Item{it}}
		case k == 1 && !hasFile:
			hasFile = true
			st = Stmt{Kind: "assign", Items: []Item{{K: "formFile", Name: g.name2(usedForm, used)}}}
		case k == 2 && !hasJSON:
			hasJSON = true
			t := g.pickType(h.Inner, false)
			st = Stmt{Kind: "assign", Items: []Item{{K: "formJSON", Name: g.name2(usedForm, used), Ty: g.q(t.tmpl), tmpl: t.tmpl}}}
		case k == 3:
			tm := pick(g.rng, []string{"{M}.IdDossier", "{M}.IdDossier", "{M}.Archived", "{M}.Label", "{M}.Ratio"})
			if h.Inner {
				tm = pick(g.rng, []string{"{I}.InnerID", "{I}.InnerFlag"})
			} else if g.enumQuery && g.chance(0.5) {
				tm = "{M}.Color"
			}
			st = Stmt{Kind: "assign", Items: []Item{{K: "queryInt", Name: g.name2(used, usedForm), Ty: g.q(tm), tmpl: tm}}}
		case k == 4 && !hasJSON:
			// a junk statement
			st = Stmt{Kind: "junk"}
		default:
			// one to three groupable items in one assignment
			m := 1
			if g.chance(0.4) {
				m += g.rng.Intn(2) + 1
			}
			st = Stmt{Kind: "assign"}
			for j := 0; j < m; j++ {
				k := pick(g.rng, []string{"query", "query", "queryBool", "queryInt64", "formValue"})
				if (k == "queryBool" || k == "queryInt64") && form == "importedFunc" {
					k = "query"
				}
				it := Item{K: k}
				if k == "formValue" {
					it.Name = g.name2(usedForm, used)
				} else {
					it.Name = g.name2(used, usedForm)
				}
				switch k {
				case "query":
					it.Ty = "string"
				case "queryBool":
					it.Ty = "bool"
				case "queryInt64":
					it.Ty = "int64"
				}
				st.Items = append(st.Items, it)
			}
		}
		h.Stmts = append(h.Stmts, st)
	}
	switch k := g.rng.Intn(8); {
	case k <= 3:
		comp := g.chance(0.3)
		t := g.pickType(h.Inner, comp)
		h.Ret = Ret{K: "json", Pretty: g.chance(0.25), Composite: comp, Ty: g.q(t.tmpl), tmpl: t.tmpl}
	case k == 4:
		h.Ret = Ret{K: "blob", Ty: "[]byte", tmpl: "[]byte"}
	default:
		h.Ret = Ret{K: "plain"}
	}
	return h
}

func pick[T any](rng *rand.Rand, xs []T) T { return xs[rng.Intn(len(xs))] }

// helperRecv: the typed helpers are methods of the handler's receiver, of a package-level value,
// or (from the main package) of a value of the imported controller type
func (g *gen) helperRecv(h *Handler, recv string) string {
	if !h.Inner && g.chance(0.3) {
		return "innerHelper"
	}
	return recv
}

// renderBody writes the statements of a handler; c = context variable, recv = receiver of the typed helpers.
func (g *gen) renderBody(h *Handler, c, recv string) string {
	var b strings.Builder
	v := func() string { g.nvar++; return fmt.Sprintf("v%d", g.nvar) }
	lit := func(n string) string {
		if r := []rune(n); g.chance(0.15) && len(r) > 1 {
			return fmt.Sprintf("%q + %q", string(r[:1]), string(r[1:]))
		}
		return fmt.Sprintf("%q", n)
	}
	call := func(it Item, x string) string {
		switch it.K {
		case "query":
			return fmt.Sprintf("%s.QueryParam(%s)", c, lit(it.Name))
		case "queryBool":
			return fmt.Sprintf("%s.QueryParamBool(%s, %s)", g.helperRecv(h, recv), c, lit(it.Name))
		case "queryInt64":
			return fmt.Sprintf("%s.QueryParamInt64(%s, %s)", g.helperRecv(h, recv), c, lit(it.Name))
		case "formValue":
			return fmt.Sprintf("%s.FormValue(%s)", c, lit(it.Name))
		}
		panic(it.K)
	}
	for _, st := range h.Stmts {
		if st.Kind == "junk" {
			switch g.rng.Intn(4) {
			case 0:
				fmt.Fprintf(&b, "\tfmt.Println(%q)\n", "junk")
			case 1:
				x := v()
				fmt.Fprintf(&b, "\tvar %s uint\n\t_ = %s\n", x, x)
			case 2:
				x := v()
				fmt.Fprintf(&b, "\tfor %s := range 3 {\n\t\tfmt.Println(%s)\n\t}\n", x, x)
			default:
				fmt.Fprintf(&b, "\tif %s == nil {\n\t\treturn nil\n\t}\n", c)
			}
			continue
		}
		it := st.Items[0]
		switch it.K {
		case "bind":
			x := v()
			T := text(it.tmpl, h.Inner)
			arg := "&" + x
			if it.Addr {
				fmt.Fprintf(&b, "\tvar %s %s\n", x, T)
			} else {
				fmt.Fprintf(&b, "\tvar %s = new(%s)\n", x, T)
				arg = x
			}
			if st.Kind == "guarded" {
				fmt.Fprintf(&b, "\tif err := %s.Bind(%s); err != nil {\n\t\treturn err\n\t}\n", c, arg)
			} else {
				e := v()
				fmt.Fprintf(&b, "\t%s := %s.Bind(%s)\n\tif %s != nil {\n\t\treturn %s\n\t}\n", e, c, arg, e, e)
			}
			fmt.Fprintf(&b, "\t_ = %s\n", x)
		case "formFile":
			x := v()
			fmt.Fprintf(&b, "\t%s, _ := %s.FormFile(%s)\n\t_ = %s\n", x, c, lit(it.Name), x)
		case "formJSON":
			x := v()
			fvj := "FormValueJSON"
			if !h.Inner && g.chance(0.3) {
				fvj = "inner.FormValueJSON"
			}
			fmt.Fprintf(&b, "\tvar %s %s\n\t_ = %s(%s, %s, &%s)\n", x, text(it.tmpl, h.Inner), fvj, c, lit(it.Name), x)
		case "queryInt":
			x := v()
			T := text(it.tmpl, h.Inner)
			// the generic helper of the type's kind; from the main package also the imported one
			fn, tuple := "QueryParamInt", true
			switch {
			case strings.HasSuffix(it.tmpl, "Archived") || strings.HasSuffix(it.tmpl, "InnerFlag"):
				fn, tuple = "QueryParamBool", false
			case strings.HasSuffix(it.tmpl, "Label"):
				fn, tuple = "QueryParam", false
			}
			if !h.Inner && g.chance(0.4) {
				fn = "inner." + fn
			}
			switch {
			case !tuple:
				fmt.Fprintf(&b, "\t%s := %s[%s](%s, %s)\n\t_ = %s\n", x, fn, T, c, lit(it.Name), x)
			case g.chance(0.5):
				fmt.Fprintf(&b, "\t%s, _ := %s[%s](%s, %s)\n\t_ = %s\n", x, fn, T, c, lit(it.Name), x)
			default:
				e := v()
				fmt.Fprintf(&b, "\t%s, %s := %s[%s](%s, %s)\n\tif %s != nil {\n\t\treturn %s\n\t}\n\t_ = %s\n", x, e, fn, T, c, lit(it.Name), e, e, x)
			}
		default:
			var xs, calls []string
			for _, it := range st.Items {
				xs = append(xs, v())
				calls = append(calls, call(it, ""))
			}
			fmt.Fprintf(&b, "\t%s := %s\n", strings.Join(xs, ", "), strings.Join(calls, ", "))
			fmt.Fprintf(&b, "\tfmt.Println(%s)\n", strings.Join(xs, ", "))
		}
	}
	switch h.Ret.K {
	case "json":
		T := text(h.Ret.tmpl, h.Inner)
		val := T + "{}"
		if !h.Ret.Composite {
			x := v()
			fmt.Fprintf(&b, "\tvar %s %s\n", x, T)
			val = x
		}
		if h.Ret.Pretty {
			fmt.Fprintf(&b, "\treturn %s.JSONPretty(200, %s, \" \")\n", c, val)
		} else {
			fmt.Fprintf(&b, "\treturn %s.JSON(200, %s)\n", c, val)
		}
	case "blob":
		x := v()
		fmt.Fprintf(&b, "\tvar %s []byte\n\treturn %s.Blob(200, \"\", %s)\n", x, c, x)
	default:
		b.WriteString("\treturn nil\n")
	}
	return b.String()
}

const echoSrc = `import "mime/multipart"

type Context interface {
	Bind(interface{}) error
	JSON(int, interface{}) error
	JSONPretty(int, interface{}, string) error
	QueryParam(string) string
	Blob(code int, contentType string, b []byte) error
	FormValue(name string) string
	FormFile(name string) (*multipart.FileHeader, error)
}

type Echo struct{}

func (Echo) GET(string, func(Context) error)    {}
func (Echo) POST(string, func(Context) error)   {}
func (Echo) PUT(string, func(Context) error)    {}
func (Echo) DELETE(string, func(Context) error) {}
func (Echo) Use(...any)                          {}
`

var verbs = []string{"GET", "POST", "PUT", "DELETE"}

type pathPart struct{ expr, val string }

// New synthesises one route file (case id), with its table.
func New(rng *rand.Rand, id string) *Table { return NewWith(rng, id, false) }

// NewWith: enumQuery lets the generic query helper be instantiated with an enum type.
func NewWith(rng *rand.Rand, id string, enumQuery bool) *Table {
	g := &gen{rng: rng, id: id, mainPath: synth.ModulePath + "/" + id, enumQuery: enumQuery, taken: map[string]bool{}}
	t := &Table{MainPath: g.mainPath}
	parts := []pathPart{
		{`"/api"`, "/api"}, {`"/x"`, "/x"}, {`"/with_param/:param"`, "/with_param/:param"}, {`"/"`, "/"}, {`"seg"`, "seg"},
		{"base", "/api"}, {"typedBase", "/typed/"}, {"local", "local/"}, {"inner.Url", "/inner/"}, {"otherConst", "/other"},
		{`"/é space"`, "/é space"}, {"(base + local)", "/apilocal/"},
	}
	forms := []string{"method", "method", "valueMethod", "localRecv", "func", "otherFileMethod", "otherFileFunc", "importedFunc", "importedMethod", "lit"}
	n := 2 + rng.Intn(9)
	if g.chance(0.05) {
		n = 0
	}
	// a second registration function whose local constants shadow `base` and `local`: the same
	// expression text has another value there
	twoScopes := g.chance(0.35)
	scope2 := map[string]string{"base": "/v2", "local": "zone/", "(base + local)": "/v2zone/"}
	var routes2 []*Route
	var mainDecls, otherDecls, innerDecls, regs, regs2 strings.Builder
	for i := 0; i < n; i++ {
		r := &Route{Verb: pick(rng, verbs)}
		second := twoScopes && g.chance(0.5)
		k := 1 + rng.Intn(3)
		var exprs []string
		for j := 0; j < k; j++ {
			p := pick(rng, parts)
			exprs = append(exprs, p.expr)
			if v, ok := scope2[p.expr]; ok && second {
				r.URL += v
			} else {
				r.URL += p.val
			}
		}
		r.URLExpr = strings.Join(exprs, " + ")
		h := g.handler(pick(rng, forms))
		r.Handler = h
		var ref string
		switch h.Form {
		case "method":
			fmt.Fprintf(&mainDecls, "func (ct *controller) %s(c echo.Context) error {\n%s}\n\n", h.Name, g.renderBody(h, "c", "ct"))
			ref = "ct." + h.Name
		case "valueMethod":
			fmt.Fprintf(&mainDecls, "func (ct controllerV) %s(c echo.Context) error {\n%s}\n\n", h.Name, g.renderBody(h, "c", "ct"))
			ref = "cv." + h.Name
		case "localRecv":
			fmt.Fprintf(&mainDecls, "func (ct controllerV) %s(c echo.Context) error {\n%s}\n\n", h.Name, g.renderBody(h, "c", "ct"))
			ref = "cl." + h.Name
		case "func":
			fmt.Fprintf(&mainDecls, "func %s(c echo.Context) error {\n%s}\n\n", h.Name, g.renderBody(h, "c", "helper"))
			ref = h.Name
		case "otherFileMethod":
			fmt.Fprintf(&otherDecls, "func (ct *controller) %s(c echo.Context) error {\n%s}\n\n", h.Name, g.renderBody(h, "c", "ct"))
			ref = "ct." + h.Name
		case "otherFileFunc":
			fmt.Fprintf(&otherDecls, "func %s(ctx echo.Context) error {\n%s}\n\n", h.Name, g.renderBody(h, "ctx", "helper"))
			ref = h.Name
		case "importedFunc":
			if strings.HasPrefix(h.Name, "h") {
				h.Name = "H" + h.Name
			}
			fmt.Fprintf(&innerDecls, "func %s(c echo.Context) error {\n%s}\n\n", h.Name, g.renderBody(h, "c", ""))
			ref = "inner." + h.Name
		case "importedMethod":
			if strings.HasPrefix(h.Name, "h") {
				h.Name = "H" + h.Name
			}
			fmt.Fprintf(&innerDecls, "func (ct Controller) %s(c echo.Context) error {\n%s}\n\n", h.Name, g.renderBody(h, "c", "ct"))
			ref = "ci." + h.Name
		case "lit":
			ref = "func(ctx echo.Context) error {\n" + g.renderBody(h, "ctx", "helper") + "\t}"
			h.Name = "" // Anonymous<pos>: checked by prefix
		}
		if second {
			fmt.Fprintf(&regs2, "\te.%s(%s, %s)\n", r.Verb, r.URLExpr, ref)
			routes2 = append(routes2, r)
			continue
		}
		fmt.Fprintf(&regs, "\te.%s(%s, %s)\n", r.Verb, r.URLExpr, ref)
		if g.chance(0.2) {
			regs.WriteString("\te.Use(\"middleware\")\n")
		}
		t.Routes = append(t.Routes, r)
	}
	// the routes of the second function follow in the file
	t.Routes = append(t.Routes, routes2...)
	second := ""
	if twoScopes {
		second = "\nfunc routes2(e *echo.Echo, ct *controller, cv controllerV, ci inner.Controller) {\n\tconst base = \"/v2\"\n\tconst local = \"zone/\"\n\t_, _ = base, local\n\tcl := controllerV{}\n\t_ = cl\n" + regs2.String() + "}\n"
	}
	mainSrc := `const base = "/api"

const typedBase string = "/typed/"

type IdDossier int64

type Color int64

const (
	Red Color = iota
	Green
	Blue
)

type In0 struct {
	A int
	B string
}

type Out0 struct {
	X []int
	D inner.Data
}

type Page[T any] struct {
	Items []T
	Total int
}

type controller struct{}

type controllerV struct{}

var helper controllerV

var innerHelper inner.Controller

type Archived bool

type Label string

type Ratio float64

func QueryParamInt[T ~int64 | ~float64](echo.Context, string) (T, error) { return 0, nil }
func QueryParamBool[T ~bool](echo.Context, string) T                    { return false }
func QueryParam[T ~string](echo.Context, string) T                      { return "" }
func (controllerV) QueryParamInt64(echo.Context, string) int64 { return 0 }
func (controllerV) QueryParamBool(echo.Context, string) bool   { return false }
func (*controller) QueryParamInt64(echo.Context, string) int64 { return 0 }
func (*controller) QueryParamBool(echo.Context, string) bool   { return false }
func FormValueJSON(echo.Context, string, any) error           { return nil }

` + mainDecls.String() + `func routes(e *echo.Echo, ct *controller, cv controllerV, ci inner.Controller) {
	const local = "local/"
	cl := controllerV{}
	_ = cl
	fmt.Println("registering")
` + regs.String() + "}\n" + second
	otherSrc := "const otherConst = \"/other\"\n\nvar _ = fmt.Sprint\n\n" + otherDecls.String()
	innerSrc := `const Url = "/inner/"

type Controller struct{}

type Data struct {
	K string
	V []float64
}

type InnerID int64

var _ = fmt.Sprint

type InnerFlag bool

func QueryParamInt[T ~int64 | ~float64](echo.Context, string) (T, error) { return 0, nil }
func QueryParamBool[T ~bool](echo.Context, string) T                    { return false }
func QueryParam[T ~string](echo.Context, string) T                      { return "" }
func (Controller) QueryParamInt64(echo.Context, string) int64 { return 0 }
func (Controller) QueryParamBool(echo.Context, string) bool   { return false }
func FormValueJSON(echo.Context, string, any) error           { return nil }

` + innerDecls.String()
	imports := map[string]string{"fmt": "fmt", "echo": g.mainPath + "/echo", "inner": g.mainPath + "/inner"}
	c := &synth.Case{ID: id}
	c.Main = &synth.Pkg{Name: "p" + id, Imports: imports, Files: []*synth.File{
		{Name: "routes.go", Decls: []*synth.Decl{{Kind: "raw", Name: "routes", Text: mainSrc}}},
		{Name: "other.go", Decls: []*synth.Decl{{Kind: "raw", Name: "other", Text: otherSrc}}},
	}}
	c.Subs = []*synth.Pkg{
		{Dir: "echo", Name: "echo", Files: []*synth.File{{Name: "echo.go", Decls: []*synth.Decl{{Kind: "raw", Name: "echo", Text: echoSrc}}}}},
		{Dir: "inner", Name: "inner", Imports: map[string]string{"fmt": "fmt", "echo": g.mainPath + "/echo"},
			Files: []*synth.File{{Name: "inner.go", Decls: []*synth.Decl{{Kind: "raw", Name: "inner", Text: innerSrc}}}}},
	}
	t.Case = c
	t.Prefixes = []string{""}
	if len(t.Routes) > 0 {
		u := pick(rng, t.Routes).URL
		ru := []rune(u)
		t.Prefixes = append(t.Prefixes, u, string(ru[:1+rng.Intn(len(ru))]), "/nothing-has-this-prefix")
	}
	return t
}
