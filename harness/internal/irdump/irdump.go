// Package irdump serialises the result of the real gomacro analysis (the IR) to JSON,
// walking the node graph from Analysis.Source by pointer (not through the Types map).
package irdump

import (
	"reflect"
	"fmt"
	"go/types"
	"sort"

	an "github.com/benoitkugler/gomacro/analysis"
)

type Ty struct {
	K    string `json:"k"` // basic | time | arr | map | ptr | ref
	B    string `json:"b,omitempty"`
	BK   string `json:"bk,omitempty"` // str | int | float | bool | none
	Date bool   `json:"date,omitempty"`
	Len  int    `json:"len,omitempty"`
	E    *Ty    `json:"e,omitempty"`
	Key  *Ty    `json:"key,omitempty"`
	Q    string `json:"q,omitempty"`
}

type Field struct {
	Name       string `json:"name"`
	T          *Ty    `json:"t"`
	Tag        string `json:"tag"`
	GoExported bool   `json:"goExported"`
	Embedded   bool   `json:"embedded"`
	// what the real methods answer (tie for the Lean field model)
	JSONName string `json:"jsonName"`
	Exported bool   `json:"exported"`
}

type Member struct {
	Name     string `json:"name"`
	Val      string `json:"val"`    // ExactString
	ValStr   string `json:"valStr"` // String
	Comment  string `json:"comment"`
	Exported bool   `json:"exported"`
	IsInt    bool   `json:"isInt"`
	Int      int64  `json:"int"`
	Str      string `json:"str"` // string value of a string constant
	Pkg      string `json:"pkg,omitempty"` // package declaring the constant (may differ from the type's)
}

type Comment struct {
	Kind    int    `json:"kind"`
	Content string `json:"content"`
}

type TArg struct {
	Named bool   `json:"named"`
	Name  string `json:"name"` // local name if named, type string otherwise
	Q     string `json:"q"`
}

type Decl struct {
	Q        string `json:"q"`
	PkgPath  string `json:"pkgPath"`
	PkgName  string `json:"pkgName"`
	Name     string `json:"name"`
	TArgs    []TArg `json:"targs"`
	Kind     string `json:"kind"` // named | struct | enum | union
	Exported bool   `json:"exported"`
	// named
	Under *Ty `json:"under,omitempty"`
	// struct
	Fields     []Field   `json:"fields"`
	Comments   []Comment `json:"comments"`
	Implements []string  `json:"implements"`
	NullXXX    string    `json:"nullXXX,omitempty"` // go name of the data field if the struct looks like sql.NullXXX
	// enum
	EnumUnder string   `json:"enumUnder,omitempty"`
	EnumBK    string   `json:"enumBK,omitempty"`
	Members   []Member `json:"members"`
	IsIota    bool     `json:"isIota"`
	// union
	UMembers []*Ty `json:"umembers"`
}

type Conflict struct {
	Q    string `json:"q"`
	What string `json:"what"`
}

type Env struct {
	PkgPath   string     `json:"pkgPath"`
	PkgName   string     `json:"pkgName"`
	Source    []*Ty      `json:"source"`
	Decls     []*Decl    `json:"decls"`
	TypeKeys  []string   `json:"typeKeys"`  // keys of Analysis.Types (type strings), sorted
	Conflicts []Conflict `json:"conflicts"` // two different nodes describing the same named type
}

func bkName(k an.BasicKind) string {
	switch k {
	case an.BKString:
		return "str"
	case an.BKInt:
		return "int"
	case an.BKFloat:
		return "float"
	case an.BKBool:
		return "bool"
	}
	return "none"
}

type dumper struct {
	env   *Env
	byQ   map[string]*Decl
	nodes map[string]an.Type // first node seen per Q
	seen  map[an.Type]bool
}

func qOf(t types.Type) string { return types.TypeString(t, nil) }

func (d *dumper) ty(t an.Type) *Ty {
	switch t := t.(type) {
	case nil:
		return &Ty{K: "nil"}
	case *an.Basic:
		bk := "none"
		func() {
			defer func() { recover() }()
			bk = bkName(t.Kind())
		}()
		return &Ty{K: "basic", B: t.B.Name(), BK: bk}
	case *an.Time:
		return &Ty{K: "time", Date: t.IsDate}
	case *an.Array:
		return &Ty{K: "arr", Len: t.Len, E: d.ty(t.Elem)}
	case *an.Map:
		return &Ty{K: "map", Key: d.ty(t.Key), E: d.ty(t.Elem)}
	case *an.Pointer:
		return &Ty{K: "ptr", E: d.ty(t.Elem)}
	case *an.Named, *an.Struct, *an.Enum, *an.Union:
		q := qOf(t.Type())
		d.decl(q, t)
		return &Ty{K: "ref", Q: q}
	}
	return &Ty{K: fmt.Sprintf("unknown:%T", t)}
}

func (d *dumper) decl(q string, node an.Type) {
	if d.seen[node] {
		return
	}
	d.seen[node] = true
	if prev, ok := d.nodes[q]; ok && prev != node {
		d.env.Conflicts = append(d.env.Conflicts, Conflict{Q: q, What: fmt.Sprintf("two nodes (%T, %T) for one named type", prev, node)})
		// still dump the second node under a distinct key so that its content is visible
		q = q + "#2"
	} else {
		d.nodes[q] = node
	}
	named, _ := node.Type().(*types.Named)
	out := &Decl{Q: q, Fields: []Field{}, Comments: []Comment{}, Implements: []string{}, Members: []Member{}, UMembers: []*Ty{}, TArgs: []TArg{}}
	d.byQ[q] = out
	d.env.Decls = append(d.env.Decls, out)
	if named != nil {
		out.Name = named.Obj().Name()
		out.Exported = named.Obj().Exported()
		if p := named.Obj().Pkg(); p != nil {
			out.PkgPath, out.PkgName = p.Path(), p.Name()
		}
		if ta := named.TypeArgs(); ta != nil {
			for i := 0; i < ta.Len(); i++ {
				a := ta.At(i)
				if n, ok := a.(*types.Named); ok {
					out.TArgs = append(out.TArgs, TArg{Named: true, Name: n.Obj().Name(), Q: qOf(n)})
				} else {
					out.TArgs = append(out.TArgs, TArg{Named: false, Name: a.String(), Q: a.String()})
				}
			}
		}
	}
	switch t := node.(type) {
	case *an.Named:
		out.Kind = "named"
		out.Under = d.ty(t.Underlying)
	case *an.Struct:
		out.Kind = "struct"
		for _, f := range t.Fields {
			out.Fields = append(out.Fields, Field{Name: f.Field.Name(), T: d.ty(f.Type), Tag: string(f.Tag),
				GoExported: f.Field.Exported(), Embedded: f.Field.Embedded(), JSONName: f.JSONName(), Exported: f.Exported()})
		}
		for _, c := range t.Comments {
			out.Comments = append(out.Comments, Comment{Kind: int(c.Kind), Content: c.Content})
		}
		for _, u := range t.Implements {
			out.Implements = append(out.Implements, qOf(u.Type()))
		}
	case *an.Enum:
		out.Kind = "enum"
		out.EnumUnder = t.Underlying().Name()
		func() {
			defer func() { recover() }()
			out.EnumBK = "none"
			out.EnumBK = bkName(t.Kind())
		}()
		out.IsIota = t.IsIota
		for _, m := range t.Members {
			mm := Member{Name: m.Const.Name(), Val: m.Const.Val().ExactString(), ValStr: m.Const.Val().String(), Comment: m.Comment, Exported: m.Const.Exported()}
			if m.Const.Pkg() != nil {
				mm.Pkg = m.Const.Pkg().Path()
			}
			if v, ok := constInt(m); ok {
				mm.IsInt, mm.Int = true, v
			}
			mm.Str = constStr(m)
			out.Members = append(out.Members, mm)
		}
	case *an.Union:
		out.Kind = "union"
		for _, m := range t.Members {
			out.UMembers = append(out.UMembers, d.ty(m))
		}
	}
}

// Dump serialises an analysis.
func Dump(a *an.Analysis) *Env {
	env := &Env{PkgPath: a.Pkg.PkgPath, PkgName: a.Pkg.Name, Source: []*Ty{}, Decls: []*Decl{}, Conflicts: []Conflict{}, TypeKeys: []string{}}
	d := &dumper{env: env, byQ: map[string]*Decl{}, nodes: map[string]an.Type{}, seen: map[an.Type]bool{}}
	for _, s := range a.Source {
		env.Source = append(env.Source, d.ty(a.Types[s]))
	}
	// nodes that are values of the Types map but not reachable from Source by pointer
	// (e.g. replaced entries) are visited as well, after the reachable ones
	var keys []string
	byKey := map[string]an.Type{}
	for k, v := range a.Types {
		ks := qOf(k)
		keys = append(keys, ks)
		byKey[ks] = v
	}
	sort.Strings(keys)
	env.TypeKeys = keys
	for _, k := range keys {
		v := byKey[k]
		switch v.(type) {
		case *an.Named, *an.Struct, *an.Enum, *an.Union:
			d.decl(qOf(v.Type()), v)
		}
	}
	return env
}

// Roots is a dumper for type graphs that do not come with their Analysis (the types of extracted
// endpoints): Ty registers the declarations reachable from a root.
type Roots struct{ d *dumper }

func NewRoots(pkgPath, pkgName string) *Roots {
	env := &Env{PkgPath: pkgPath, PkgName: pkgName, Source: []*Ty{}, Decls: []*Decl{}, Conflicts: []Conflict{}, TypeKeys: []string{}}
	return &Roots{d: &dumper{env: env, byQ: map[string]*Decl{}, nodes: map[string]an.Type{}, seen: map[an.Type]bool{}}}
}

// Ty dumps one root (nil for a nil type).
func (r *Roots) Ty(t an.Type) *Ty {
	if t == nil || reflect.ValueOf(t).IsNil() {
		return nil
	}
	return r.d.ty(t)
}

func (r *Roots) Env() *Env { return r.d.env }
