package irdump

import (
	"go/constant"

	an "github.com/benoitkugler/gomacro/analysis"
)

func constInt(m an.EnumMember) (int64, bool) {
	if m.Const.Val().Kind() != constant.Int {
		return 0, false
	}
	return constant.Int64Val(m.Const.Val())
}

func constStr(m an.EnumMember) string {
	if m.Const.Val().Kind() != constant.String {
		return ""
	}
	return constant.StringVal(m.Const.Val())
}
