// Package rep collects what a correspondence run covered and found.
package rep

import (
	"crypto/sha256"
	"encoding/hex"
	"encoding/json"
	"fmt"
	"os"
	"sort"
)

// Failure is a concrete input on which the PROPERTY fails on the implementation.
type Failure struct {
	Signature string `json:"signature"` // stable class used to match known findings
	What      string `json:"what"`
	Input     any    `json:"input"`
	Expected  any    `json:"expected,omitempty"`
	Observed  any    `json:"observed,omitempty"`
}

// Disagreement is a model/implementation mismatch for which no property failure was established.
type Disagreement struct {
	Tie      string `json:"tie"` // name of the correspondence that no longer checks
	Input    any    `json:"input"`
	Model    any    `json:"model,omitempty"`
	Impl     any    `json:"impl,omitempty"`
}

type Report struct {
	Property      string         `json:"property"`
	Seed          int64          `json:"seed"`
	Tier          string         `json:"tier"`
	Evaluations   int            `json:"evaluations"`
	Distinct      int            `json:"distinct_nontrivial"`
	Rule          string         `json:"rule"`
	Samples       []any          `json:"samples"`
	Histogram     map[string]int `json:"histogram"`
	Failures      []Failure      `json:"failures"`
	Disagreements []Disagreement `json:"disagreements"`
	Notes         []string       `json:"notes,omitempty"`
	Exhaustive    bool           `json:"exhaustive,omitempty"`

	seen     map[string]bool
	failSeen map[string]int
}

func New(prop string, seed int64, tier string) *Report {
	return &Report{Property: prop, Seed: seed, Tier: tier, Histogram: map[string]int{},
		seen: map[string]bool{}, failSeen: map[string]int{}}
}

func hash(v any) string {
	b, _ := json.Marshal(v)
	h := sha256.Sum256(b)
	return hex.EncodeToString(h[:8])
}

// Case records one evaluated case; nontrivial cases are counted once per distinct content.
func (r *Report) Case(v any, nontrivial bool) {
	r.Evaluations++
	if nontrivial {
		h := hash(v)
		if !r.seen[h] {
			r.seen[h] = true
			r.Distinct++
		}
	}
	if len(r.Samples) < 5 && nontrivial {
		r.Samples = append(r.Samples, v)
	}
}

func (r *Report) Hist(k string) { r.Histogram[k]++ }
func (r *Report) HistN(k string, n int) { r.Histogram[k] += n }

// Fail records a property failure (at most 3 kept per signature, all counted).
func (r *Report) Fail(f Failure) {
	r.failSeen[f.Signature]++
	r.Histogram["failure:"+f.Signature]++
	if r.failSeen[f.Signature] <= 3 {
		r.Failures = append(r.Failures, f)
	}
}

func (r *Report) Disagree(d Disagreement) {
	r.Histogram["disagreement:"+d.Tie]++
	if len(r.Disagreements) < 20 {
		r.Disagreements = append(r.Disagreements, d)
	}
}

func (r *Report) Note(format string, a ...any) {
	r.Notes = append(r.Notes, fmt.Sprintf(format, a...))
}

func (r *Report) Write(path string) error {
	if r.Samples == nil {
		r.Samples = []any{}
	}
	if r.Failures == nil {
		r.Failures = []Failure{}
	}
	if r.Disagreements == nil {
		r.Disagreements = []Disagreement{}
	}
	sort.SliceStable(r.Failures, func(i, j int) bool { return r.Failures[i].Signature < r.Failures[j].Signature })
	b, err := json.MarshalIndent(r, "", " ")
	if err != nil {
		return err
	}
	return os.WriteFile(path, b, 0o644)
}
