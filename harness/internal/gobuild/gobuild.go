// Package gobuild places generated Go files next to the synthesised sources, applies the
// import-fixing pass (golang.org/x/tools/imports, the library behind goimports) and type-checks
// the packages with go/packages.
package gobuild

import (
	"fmt"
	"os"
	"path/filepath"
	"sort"
	"strings"

	"golang.org/x/tools/go/packages"
	"golang.org/x/tools/imports"

	"verifharness/internal/load"
)

type GenFile struct {
	Case    string
	Name    string // file name inside the case's package directory
	Content string
}

type Problem struct {
	Case  string `json:"case"`
	File  string `json:"file"`
	Stage string `json:"stage"` // imports (syntax error) | typecheck
	Msg   string `json:"msg"`
}

// PQStub is the stand-in for github.com/lib/pq (same API as the one the repository's tests use).
const PQStub = `// Package pq is a stand-in for github.com/lib/pq
package pq

import (
	"database/sql/driver"
	"time"
)

// NullTime as in lib/pq (deprecated there in favour of sql.NullTime, still used by sqlcrud)
type NullTime struct {
	Time  time.Time
	Valid bool
}

func (nt *NullTime) Scan(value interface{}) error {
	nt.Time, nt.Valid = value.(time.Time)
	return nil
}

func (nt NullTime) Value() (driver.Value, error) {
	if !nt.Valid {
		return nil, nil
	}
	return nt.Time, nil
}

type (
	Int64Array  []int64
	Int32Array  []int32
	StringArray []string
	BoolArray   []bool
	Float64Array []float64
	Float32Array []float32
)

func (*Float64Array) Scan(src interface{}) error   { return nil }
func (Float64Array) Value() (driver.Value, error)  { return nil, nil }
func (*Float32Array) Scan(src interface{}) error   { return nil }
func (Float32Array) Value() (driver.Value, error)  { return nil, nil }

func (*Int64Array) Scan(src interface{}) error   { return nil }
func (Int64Array) Value() (driver.Value, error)  { return nil, nil }
func (*Int32Array) Scan(src interface{}) error   { return nil }
func (Int32Array) Value() (driver.Value, error)  { return nil, nil }
func (*StringArray) Scan(src interface{}) error  { return nil }
func (StringArray) Value() (driver.Value, error) { return nil, nil }
func (*BoolArray) Scan(src interface{}) error    { return nil }
func (BoolArray) Value() (driver.Value, error)   { return nil, nil }

func CopyIn(name string, args ...string) string { return "" }
`

// InstallPQ adds the pq stand-in to the module (as a replaced requirement).
func InstallPQ(l *load.Loaded) error {
	dir := filepath.Join(l.Mod.Root, "zz_pq")
	if err := os.MkdirAll(dir, 0o755); err != nil {
		return err
	}
	if err := os.WriteFile(filepath.Join(dir, "pq.go"), []byte(PQStub), 0o644); err != nil {
		return err
	}
	if err := os.WriteFile(filepath.Join(dir, "go.mod"), []byte("module github.com/lib/pq\n\ngo 1.23\n"), 0o644); err != nil {
		return err
	}
	gomod := "module acme.org/synth\n\ngo 1.23\n\nrequire github.com/lib/pq v0.0.0\n\nreplace github.com/lib/pq => ./zz_pq\n"
	return os.WriteFile(filepath.Join(l.Mod.Root, "go.mod"), []byte(gomod), 0o644)
}

// Place runs the import pass on every file and writes it; syntax errors are returned as problems.
func Place(l *load.Loaded, files []GenFile) []Problem {
	var probs []Problem
	// the import pass resolves a missing package from the working directory's module (the goimports
	// binary gomacro runs is started inside the user's module): do the same
	if wd, err := os.Getwd(); err == nil {
		if os.Chdir(l.Mod.Root) == nil {
			defer os.Chdir(wd)
		}
	}
	for _, f := range files {
		path := filepath.Join(l.Mod.Root, f.Case, f.Name)
		out, err := imports.Process(path, []byte(f.Content), &imports.Options{Comments: true, TabIndent: true, TabWidth: 8})
		if err != nil {
			probs = append(probs, Problem{Case: f.Case, File: f.Name, Stage: "imports", Msg: err.Error()})
			continue
		}
		if err := os.WriteFile(path, out, 0o644); err != nil {
			probs = append(probs, Problem{Case: f.Case, File: f.Name, Stage: "write", Msg: err.Error()})
		}
	}
	return probs
}

// Remove deletes previously placed files.
func Remove(l *load.Loaded, files []GenFile) {
	for _, f := range files {
		os.Remove(filepath.Join(l.Mod.Root, f.Case, f.Name))
	}
}

// Check type-checks the packages of the given cases; problems are attributed to the generated
// file named in the first error of each package (or to the package itself).
func Check(l *load.Loaded, cases []string) ([]Problem, error) {
	var patterns []string
	seen := map[string]bool{}
	for _, c := range cases {
		if !seen[c] {
			seen[c] = true
			patterns = append(patterns, "./"+c)
		}
	}
	sort.Strings(patterns)
	if len(patterns) == 0 {
		return nil, nil
	}
	cfg := &packages.Config{Dir: l.Mod.Root, Mode: packages.NeedName | packages.NeedFiles | packages.NeedTypes | packages.NeedSyntax | packages.NeedTypesInfo | packages.NeedImports | packages.NeedDeps}
	pkgs, err := packages.Load(cfg, patterns...)
	if err != nil {
		return nil, err
	}
	var probs []Problem
	for _, p := range pkgs {
		if len(p.Errors) == 0 {
			continue
		}
		id := strings.TrimPrefix(p.PkgPath, "acme.org/synth/")
		var msgs []string
		file := ""
		for i, e := range p.Errors {
			if i < 6 {
				msgs = append(msgs, e.Error())
			}
			if file == "" {
				pos := e.Pos
				if j := strings.Index(pos, ":"); j > 0 {
					file = filepath.Base(pos[:j])
				}
			}
		}
		probs = append(probs, Problem{Case: id, File: file, Stage: "typecheck", Msg: strings.Join(msgs, "\n")})
	}
	return probs, nil
}

func (p Problem) String() string { return fmt.Sprintf("%s/%s [%s] %s", p.Case, p.File, p.Stage, p.Msg) }
