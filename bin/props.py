"""Per-property configuration of bin/check."""
KERNEL = "Lean 4.33.0 kernel; axioms limited to propext, Classical.choice, Quot.sound (audited with #print axioms on every run)"

PROPS = {
    "C19": {
        "level": "proof",
        "lean_modules": ["Gomacro.Props.C19"],
        "prop_modules": ["Gomacro.Props.C19"],
        "runners": ["C19"],
        "trusted_base": [KERNEL,
            "hand-written Lean model Gomacro/Decls.lean of generator.WriteDeclarations (sort.Slice = any ID-sorted permutation; sort.SliceStable with 'priority first' = stable partition), tied to the code by the differential runner C19 (exhaustive small lists + random lists)",
            "Go compares strings bytewise, Lean by code point: equal on valid UTF-8, which is what the runner feeds"],
        "assumptions": ["IDs are valid UTF-8", "sort.SliceStable is stable; sort.Slice returns a sorted permutation (Go library contract)"],
        "explanation": "theorems C19_spec/C19_perm/C19_exactly_once over all declaration lists and all admissible behaviours of the unstable sort; correspondence: real WriteDeclarations vs Lean spec",
    },
    "C17": {
        "level": "proof",
        "lean_modules": ["Gomacro.Props.C17"],
        "prop_modules": ["Gomacro.Props.C17"],
        "runners": ["C17"],
        "trusted_base": [KERNEL,
            "hand-written Lean model Gomacro/Paths.lean of analysis.commonPrefix (component lists; strings.Split/Join glue modelled by splitOn/intercalate and compared through the hook)",
            "packages.Load, os.Stat, filepath.Abs are NOT modelled: loading, file->package matching and the error cases are covered by the on-disk correspondence runner only"],
        "assumptions": ["directories handed to commonPrefix are cleaned absolute paths (filepath.Abs + filepath.Dir)", "the file system is closed under taking parent directories"],
        "explanation": "theorems C17_root_ancestor / C17_root_greatest / C17_root_absolute / C17_root_exists for all directory lists; correspondence: hook commonPrefix vs model on every small directory set, real LoadSources on synthesised on-disk layouts incl. error cases",
        "technique": "Lean 4 theorems (prefix order on component lists) + exhaustive/differential correspondence through a build-tag hook and real LoadSources runs",
    },
    "C20": {
        "level": "proof",
        "lean_modules": ["Gomacro.Props.C20"],
        "prop_modules": ["Gomacro.Props.C20"],
        "runners": ["C20"],
        "extract": True,
        "race": True,
        "trusted_base": [KERNEL,
            "hand-written Lean protocol model Gomacro/Sched.lean of generator.Formatters (mutex, four cells, probe/run as environment parameters); sync.Mutex semantics (mutual exclusion, happens-before between Unlock and Lock) assumed",
            "go/ast fact extractor (harness/cmd/vh/extract.go) regenerating lean/Gomacro/Facts/Generated.lean from generator/*.go; theorem C20_facts_ok re-checks the lock discipline the model assumes",
            "races on memory other than the four cells and the mutex are outside the model: left to the Go race detector in the correspondence runs (support, not proof)",
            "os/exec, the external tools themselves and the stand-in shell scripts"],
        "assumptions": ["each probe/run command terminates", "exec.Command(...).Run() returns a non-nil error iff the command cannot be started or exits non-zero"],
        "explanation": "theorems C20_probe_once / C20_locked_access / C20_no_concurrent_access / C20_run_per_request / C20_absent_ok_untouched / C20_failing_reported / C20_no_deadlock by invariant + induction over every schedule, any number of requests and every tool configuration; C20_facts_ok over facts regenerated from the source; correspondence: real FormatFile from many goroutines in a -race build with recording stand-in tools vs oracle and vs the model",
        "technique": "Lean 4 invariant proof over all interleavings of a protocol model + regenerated lock-discipline facts + -race correspondence runs",
    },
}
NOT_APPLICABLE = {}
