"""Per-property configuration of bin/check."""
KERNEL = "Lean 4.33.0 kernel; axioms limited to propext, Classical.choice, Quot.sound (audited with #print axioms on every run)"

PROPS = {
    "C19": {
        "level": "proof",
        "lean_modules": ["Gomacro.Props.C19"],
        "prop_modules": ["Gomacro.Props.C19"],
        "runners": ["C19"],
        "trusted_base": [KERNEL,
            "hand-written Lean model Gomacro/Decls.lean of generator.WriteDeclarations (sort.Slice = any ID-sorted permutation; sort.SliceStable with 'priority first' = stable partition), tied to the code by the differential runner C19 (exhaustive small lists + random lists)",
            "Go compares strings bytewise, Lean by code point: equal on valid UTF-8, which is what the runner feeds"],
        "assumptions": ["IDs are valid UTF-8", "sort.SliceStable is stable; sort.Slice returns a sorted permutation (Go library contract)"],
        "explanation": "theorems C19_spec/C19_perm/C19_exactly_once over all declaration lists and all admissible behaviours of the unstable sort; correspondence: real WriteDeclarations vs Lean spec",
    },
}
NOT_APPLICABLE = {}
